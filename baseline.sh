#!/bin/bash
# Runs the repository's pinned baseline (38 tests) with the verif guard OFF; exit 0 iff all pass.
cd "${VERIF_REPO:-/repo}" && GOPROXY=off GOFLAGS=-mod=mod go test -vet=off -count=1 ./src/ast/... ./src/ddptypes/... ./src/parser/... ./src/scanner/... 2>&1 | tee /dev/stderr | grep -q -e '^FAIL' -e '^---\s*FAIL' && exit 1
exit 0
