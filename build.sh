#!/bin/bash
# Rebuilds everything the program-level checks need from $VERIF_REPO's (default /repo)
# *current working tree* into /verif/.work/<treehash>/ and prints that directory.
# Idempotent, lock-protected; exit 2 on any infrastructure failure.
#   build.sh            -> full build (kddp, runtime/stdlib plain+asan, list defs, locale)
#   build.sh --hash     -> print only the tree hash
set -u
REPO="${VERIF_REPO:-/repo}"
VERIF="$(cd "$(dirname "$0")" && pwd)"
export GOPROXY=off GOSUMDB=off GOTOOLCHAIN=local
GO=go1.26.8

treehash() {
	(cd "$REPO" && { git ls-files -co --exclude-standard -- src cmd lib/runtime lib/stdlib go.mod go.sum 2>/dev/null; } \
		| LC_ALL=C sort -u | while IFS= read -r f; do [ -f "$f" ] && printf '%s\0' "$f"; done \
		| xargs -0 sha256sum 2>/dev/null; echo "$REPO"; cat "$VERIF/build.sh" "$VERIF"/csrc/*.c 2>/dev/null) | sha256sum | cut -c1-16
}

H=$(treehash)
if [ "${1:-}" = "--hash" ]; then echo "$H"; exit 0; fi
W="$VERIF/.work/$H"
mkdir -p "$VERIF/.work"
exec 9>"$VERIF/.work/.lock"
flock 9
if [ -f "$W/.ok" ]; then touch "$W/.ok"; echo "$W"; exit 0; fi

# keep the three most recently used work dirs, and never remove one that was used in the last two hours
# (another run - e.g. against a scratch copy of the repository - may still be using it)
ls -1dt "$VERIF"/.work/*/ 2>/dev/null | grep -E '/[0-9a-f]{16}/$' | tail -n +$((${VERIF_KEEP_WORK:-3}+1)) | while read -r d; do
	if [ -z "$(find "$d.ok" -mmin -120 2>/dev/null)" ]; then rm -rf "$d"; fi
done

rm -rf "$W"; mkdir -p "$W"
LOG="$W/build.log"
fail() { echo "build.sh: $* (see $LOG)" >&2; tail -30 "$LOG" >&2; rm -f "$W/.ok"; exit 2; }

D="$W/ddp"
mkdir -p "$D/bin" "$D/lib" "$W/obj/plain" "$W/obj/asan" "$W/ddp-asan/lib" "$W/ddp-asan/bin"

# 1. kddp
( cd "$REPO/cmd/kddp" && CGO_CPPFLAGS="$(llvm-config-14 --cppflags)" CGO_CXXFLAGS=-std=c++14 \
	CGO_LDFLAGS="$(llvm-config-14 --ldflags --libs --system-libs all)" \
	$GO build -tags byollvm -o "$D/bin/kddp" . ) >>"$LOG" 2>&1 || fail "kddp build failed"

# 2. runtime + stdlib (plain as shipped; asan for memory checks)
RT_SRCS=$(cd "$REPO/lib/runtime" && ls source/DDP/*.c source/DDP/*/*.c)
STD_SRCS=$(cd "$REPO/lib/stdlib" && ls source/DDP/*.c | grep -v -e '/regex.c$' -e '/compression.c$')
CCF="-c -Wall -Wno-format -O2 -std=c11 -D_POSIX_C_SOURCE=200809L"
# UBSan: only the checks that concern memory discipline; memcmp/memcpy(NULL, NULL, 0) on empty texts (nonnull-attribute) and
# arithmetic UB inside library code are not what C05/C12 state
ASANF="-c -Wall -Wno-format -O1 -g -fno-omit-frame-pointer -fsanitize=address,undefined -fno-sanitize=nonnull-attribute,signed-integer-overflow,shift,float-cast-overflow,float-divide-by-zero -fno-sanitize-recover=undefined -std=c11 -D_POSIX_C_SOURCE=200809L"
build_c() { # variant flags
	local v=$1 flags=$2 pids=() ok=0
	for s in $RT_SRCS; do
		o="$W/obj/$v/rt_$(echo "$s" | tr '/' '_' | sed 's/\.c$/.o/')"
		gcc $flags -I"$REPO/lib/runtime/include" -o "$o" "$REPO/lib/runtime/$s" >>"$LOG" 2>&1 & pids+=($!)
	done
	for s in $STD_SRCS; do
		o="$W/obj/$v/std_$(echo "$s" | tr '/' '_' | sed 's/\.c$/.o/')"
		gcc $flags -I"$REPO/lib/stdlib/include" -I"$REPO/lib/runtime/include" -o "$o" "$REPO/lib/stdlib/$s" >>"$LOG" 2>&1 & pids+=($!)
	done
	gcc $flags -I"$REPO/lib/runtime/include" -o "$W/obj/$v/main.o" "$REPO/lib/runtime/source/main.c" >>"$LOG" 2>&1 & pids+=($!)
	for p in "${pids[@]}"; do wait "$p" || ok=1; done
	return $ok
}
build_c plain "$CCF" || fail "runtime/stdlib (plain) failed"
build_c asan "$ASANF" || fail "runtime/stdlib (asan) failed"
for v in plain asan; do
	if [ $v = plain ]; then L="$D/lib"; else L="$W/ddp-asan/lib"; fi
	ar rcs "$L/libddpruntime.a" "$W"/obj/$v/rt_*.o >>"$LOG" 2>&1 || fail "ar runtime"
	ar rcs "$L/libddpstdlib.a" "$W"/obj/$v/std_*.o >>"$LOG" 2>&1 || fail "ar stdlib"
	cp "$W/obj/$v/main.o" "$L/main.o"
	for s in pcre2-8 archive z lzma bz2 lz4; do ar rcs "$L/lib$s.a"; done
	ln -sfn "$REPO/lib/runtime" "$L/runtime"; ln -sfn "$REPO/lib/stdlib" "$L/stdlib"
done
ln -sfn "$REPO/lib/stdlib/Duden" "$D/Duden"
ln -sfn "$REPO/lib/stdlib/Duden" "$W/ddp-asan/Duden"
ln -sfn "$D/bin/kddp" "$W/ddp-asan/bin/kddp"

# 3. list definitions
DDPPATH="$D" "$D/bin/kddp" dump-list-defs -o "$D/lib/ddp_list_types_defs" --llvm-ir --object >>"$LOG" 2>&1 || fail "dump-list-defs failed"
cp "$D/lib/ddp_list_types_defs.ll" "$D/lib/ddp_list_types_defs.o" "$W/ddp-asan/lib/"

# 4. harness C pieces (memory ledger, runtime driver)
if [ -f "$VERIF/csrc/memledger.c" ]; then
	gcc -c -O1 -g -o "$W/obj/memledger.o" "$VERIF/csrc/memledger.c" >>"$LOG" 2>&1 || fail "memledger"
fi
if [ -f "$VERIF/csrc/rt_driver.c" ]; then
	gcc -O1 -g -fno-omit-frame-pointer -fsanitize=address,undefined -fno-sanitize-recover=undefined \
		-I"$REPO/lib/runtime/include" -o "$W/rt_driver" "$VERIF/csrc/rt_driver.c" \
		"$W/ddp-asan/lib/ddp_list_types_defs.o" -L"$W/ddp-asan/lib" -lddpruntime -lm >>"$LOG" 2>&1 || fail "rt_driver"
fi

# 5. de_DE.UTF-8 locale (sandbox only has C.utf8): copy + patch decimal point
LOCD="$W/locale/de_DE.UTF-8"
mkdir -p "$W/locale"; cp -r /usr/lib/locale/C.utf8 "$LOCD" || fail "no C.utf8 locale"
python3 - "$LOCD/LC_NUMERIC" >>"$LOG" 2>&1 <<'EOF' || fail "locale patch"
import sys
p=sys.argv[1]; b=bytearray(open(p,'rb').read())
assert b[0x20]==0x2e and b[0x24]==0x2e, (hex(b[0x20]),hex(b[0x24]))
b[0x20]=0x2c; b[0x24]=0x2c
open(p,'wb').write(b)
EOF

# 6. self-test: compile+run a program, expect "2,5" and "ä"
T="$W/selftest"; mkdir -p "$T"
cat >"$T/t.ddp" <<'EOF'
Binde "Duden/Ausgabe" ein.
Schreibe 2,5 auf eine Zeile.
Schreibe 'ä' auf eine Zeile.
EOF
( cd "$T" && DDPPATH="$D" "$D/bin/kddp" kompiliere t.ddp -o t ) >>"$LOG" 2>&1 || fail "selftest compile"
OUT=$(LOCPATH="$W/locale" "$T/t" 2>>"$LOG")
[ "$OUT" = $'2,5\nä' ] || fail "selftest output was: $OUT"
rm -rf "$T"

touch "$W/.ok"
echo "$W"
