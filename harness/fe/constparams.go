package fe

import (
	"github.com/DDP-Projekt/Kompilierer/src/ast"
	"github.com/DDP-Projekt/Kompilierer/src/ast/annotators"
	"github.com/DDP-Projekt/Kompilierer/src/ddptypes"
	"github.com/DDP-Projekt/Kompilierer/src/parser"
)

// ConstParams parses src with the -O 2 annotator and counts the by-value non-primitive parameters of the
// functions of the main module: total and those judged constant (candidates for the copy elision).
// Only used to measure what the generators reach, never as an oracle.
func ConstParams(name string, src []byte) (total, constant int, names map[string]bool) {
	names = map[string]bool{}
	defer func() { recover() }()
	mod, err := parser.Parse(parser.Options{FileName: name, Source: src, Annotators: []ast.Annotator{&annotators.ConstFuncParamAnnotator{}}})
	if err != nil || mod == nil || mod.Ast == nil || mod.Ast.Faulty {
		return 0, 0, names
	}
	for _, st := range mod.Ast.Statements {
		ds, ok := st.(*ast.DeclStmt)
		if !ok {
			continue
		}
		fd, ok := ds.Decl.(*ast.FuncDecl)
		if !ok || ast.IsExternFunc(fd) || ast.IsGeneric(fd) {
			continue
		}
		var isConst map[string]bool
		if att, ok := mod.Ast.GetMetadataByKind(fd, annotators.ConstFuncParamMetaKind); ok && att != nil {
			isConst = att.(annotators.ConstFuncParamMeta).IsConst
		}
		for _, p := range fd.Parameters {
			if p.Type.IsReference || ddptypes.IsPrimitive(p.Type.Type) {
				continue
			}
			total++
			if isConst[p.Name.Literal] {
				constant++
				names[fd.Name()+"."+p.Name.Literal] = true
			}
		}
	}
	return total, constant, names
}
