// Package fe runs the real frontend (scanner, parser, resolver, typechecker) in-process on
// generated sources / file trees and returns a summary that oracles can judge.
package fe

import (
	"fmt"
	"os"
	"path/filepath"
	"regexp"
	"runtime/debug"
	"strings"

	"github.com/DDP-Projekt/Kompilierer/src/ast"
	"github.com/DDP-Projekt/Kompilierer/src/ddperror"
	"github.com/DDP-Projekt/Kompilierer/src/parser"
)

type Diag struct {
	Code  int    `json:"code"`
	Level int    `json:"level"` // 1 warn, 2 error
	File  string `json:"file"`  // base name
	SL    uint   `json:"sl"`
	SC    uint   `json:"sc"`
	EL    uint   `json:"el"`
	EC    uint   `json:"ec"`
	Msg   string `json:"msg"`
	Path  string `json:"-"`
}

func (d Diag) String() string {
	return fmt.Sprintf("(%04d) %s %d:%d-%d:%d %s", d.Code, d.File, d.SL, d.SC, d.EL, d.EC, d.Msg)
}
func (d Diag) IsError() bool { return d.Level == int(ddperror.LEVEL_ERROR) }

type Result struct {
	Diags     []Diag
	Err       string // error value returned by Parse ("" = nil)
	Panic     string // panic that escaped Parse ("" = none)
	PanicSite string // first in-repo frame of the panic
	Faulty    bool
	Module    *ast.Module
	Dir       string // directory the files were written to (removed by Cleanup)
}

func (r *Result) Errors() []Diag {
	var e []Diag
	for _, d := range r.Diags {
		if d.IsError() {
			e = append(e, d)
		}
	}
	return e
}
func (r *Result) Accepted() bool {
	return r.Panic == "" && r.Err == "" && len(r.Errors()) == 0 && !r.Faulty
}
func (r *Result) Cleanup() {
	if r.Dir != "" {
		os.RemoveAll(r.Dir)
	}
}
func (r *Result) DiagStrings() []string {
	var s []string
	for _, d := range r.Diags {
		s = append(s, d.String())
	}
	return s
}

var frameRe = regexp.MustCompile(`(?m)^\s+(\S*/src/[^\s:]+:\d+)`)

func panicSite(stack string) string {
	for _, m := range frameRe.FindAllStringSubmatch(stack, -1) {
		f := m[1]
		if strings.Contains(f, "/parser/error.go") || strings.Contains(f, "/parser/interface.go") || strings.Contains(f, "/runtime/") {
			continue
		}
		if i := strings.Index(f, "/src/"); i >= 0 {
			return f[i+1:]
		}
	}
	return "?"
}

func toDiag(e ddperror.Error) Diag {
	return Diag{Code: int(e.Code), Level: int(e.Level), File: filepath.Base(e.File), Path: e.File,
		SL: e.Range.Start.Line, SC: e.Range.Start.Column, EL: e.Range.End.Line, EC: e.Range.End.Column, Msg: e.Msg}
}

// ParseSource parses a single source text that lives in no directory (imports only from the Duden).
func ParseSource(name string, src []byte) (res Result) {
	return parse(parser.Options{FileName: name, Source: src})
}

// ParseFiles writes the files (relative path -> content) to a fresh directory and parses main.
func ParseFiles(files map[string]string, main string) (res Result) {
	dir, err := os.MkdirTemp("", "verif-fe-")
	if err != nil {
		return Result{Err: "harness: " + err.Error()}
	}
	root := dir
	dir = filepath.Join(dir, "a", "w")
	os.MkdirAll(dir, 0o755)
	for name, content := range files {
		p := filepath.Join(dir, name)
		os.MkdirAll(filepath.Dir(p), 0o755)
		if strings.HasSuffix(name, "/") {
			os.MkdirAll(p, 0o755)
			continue
		}
		os.WriteFile(p, []byte(content), 0o644)
	}
	res = parse(parser.Options{FileName: filepath.Join(dir, main)})
	res.Dir = root
	return res
}

func parse(opts parser.Options) (res Result) {
	opts.ErrorHandler = func(e ddperror.Error) { res.Diags = append(res.Diags, toDiag(e)) }
	defer func() {
		if r := recover(); r != nil {
			st := string(debug.Stack())
			if pe, ok := r.(*parser.ParserError); ok && len(pe.StackTrace) > 0 {
				st = string(pe.StackTrace)
			}
			res.Panic = firstLine(fmt.Sprint(r))
			res.PanicSite = panicSite(st)
		}
	}()
	mod, err := parser.Parse(opts)
	if err != nil {
		res.Err = firstLine(err.Error())
		if pe, ok := err.(*parser.ParserError); ok {
			res.PanicSite = panicSite(string(pe.StackTrace))
		}
	}
	if mod != nil {
		res.Module = mod
		if mod.Ast != nil {
			res.Faulty = mod.Ast.Faulty
		}
	}
	return res
}

func firstLine(s string) string {
	s = strings.TrimSpace(s)
	if i := strings.Index(s, "\nStackTrace"); i >= 0 {
		s = s[:i]
	}
	if len(s) > 400 {
		s = s[:400]
	}
	return s
}
