// Package mut provides the input generators shared by the frontend checks (C03, C07, C16):
// raw bytes, token soup, near-valid mutants of the repository's own DDP programs, import arrangements.
package mut

import (
	"fmt"
	"os"
	"path/filepath"
	"sort"
	"strings"
	"unicode/utf8"

	"github.com/DDP-Projekt/Kompilierer/src/token"
	"pgregory.net/rapid"
)

// Piece is one token of a source text together with the blanks that precede it.
type Piece struct {
	Pre string
	Lit string
}

func isWordRune(r rune) bool {
	return ('a' <= r && r <= 'z') || ('A' <= r && r <= 'Z') || ('0' <= r && r <= '9') || strings.ContainsRune("ß_äÄöÖüÜ", r)
}

// Split cuts a text into pieces with an independent, deliberately simple tokenizer.
func Split(src string) (pieces []Piece, trailing string) {
	rs := []rune(src)
	i := 0
	for i < len(rs) {
		s := i
		for i < len(rs) && (rs[i] == ' ' || rs[i] == '\t' || rs[i] == '\n' || rs[i] == '\r') {
			i++
		}
		pre := string(rs[s:i])
		if i >= len(rs) {
			return pieces, pre
		}
		s = i
		switch r := rs[i]; {
		case isWordRune(r):
			for i < len(rs) && (isWordRune(rs[i]) || (rs[i] == ',' && i+1 < len(rs) && '0' <= rs[i+1] && rs[i+1] <= '9' && '0' <= rs[s] && rs[s] <= '9')) {
				i++
			}
		case r == '"' || r == '\'':
			i++
			for i < len(rs) && rs[i] != r {
				if rs[i] == '\\' {
					i++
				}
				i++
			}
			i++
		case r == '[':
			depth := 0
			for i < len(rs) {
				if rs[i] == '[' {
					depth++
				} else if rs[i] == ']' {
					depth--
					if depth == 0 {
						i++
						break
					}
				}
				i++
			}
		default:
			i++
		}
		if i > len(rs) {
			i = len(rs)
		}
		pieces = append(pieces, Piece{pre, string(rs[s:i])})
	}
	return pieces, ""
}

func Join(pieces []Piece, trailing string) string {
	var sb strings.Builder
	for _, p := range pieces {
		sb.WriteString(p.Pre)
		sb.WriteString(p.Lit)
	}
	sb.WriteString(trailing)
	return sb.String()
}

type File struct {
	Path   string
	Src    string
	Pieces []Piece
	Trail  string
	Group  string // golden | example | duden
}

type Corpus struct {
	Files []File
}

// LoadCorpus reads the repository's own DDP programs.
func LoadCorpus(repo string) *Corpus {
	c := &Corpus{}
	add := func(root, group string, maxBytes int) {
		var paths []string
		filepath.Walk(filepath.Join(repo, root), func(p string, info os.FileInfo, err error) error {
			if err == nil && !info.IsDir() && strings.HasSuffix(p, ".ddp") {
				paths = append(paths, p)
			}
			return nil
		})
		sort.Strings(paths)
		for _, p := range paths {
			b, err := os.ReadFile(p)
			if err != nil || !utf8.Valid(b) || len(b) > maxBytes {
				continue
			}
			f := File{Path: p, Src: string(b), Group: group}
			f.Pieces, f.Trail = Split(f.Src)
			c.Files = append(c.Files, f)
		}
	}
	add("tests/testdata/kddp", "golden", 16<<10)
	add("tests/testdata/stdlib", "golden", 16<<10)
	add("examples", "example", 16<<10)
	add("lib/stdlib/Duden", "duden", 16<<10)
	return c
}

var vocabulary = func() []string {
	v := []string{".", ",", ":", "(", ")", "-", "...", "<", ">", "!", "<!", "[", "]", "\"", "'", "\"a\"", "'b'", "\"<x>\"", "\"foo <a> <b>\"", "1", "0", "2,5", "255", "9223372036854775808",
		"x", "y", "foo", "Foo", "T", "\n", "\n\t", "\n\t\t", "\n", " ", "\n\n"}
	for k := range token.KeywordMap {
		v = append(v, k)
		r, w := utf8.DecodeRuneInString(k)
		v = append(v, strings.ToUpper(string(r))+k[w:])
	}
	sort.Strings(v)
	return v
}()

func GenRawBytes(t *rapid.T) []byte {
	b := rapid.SliceOfN(rapid.Byte(), 0, 200).Draw(t, "raw")
	if rapid.Bool().Draw(t, "ascii-bias") {
		for i := range b {
			b[i] = " \n\t.,:()-\"'[]<>!abzAZ019äß"[int(b[i])%26]
		}
	}
	return b
}

func GenTokenSoup(t *rapid.T) []byte {
	n := rapid.IntRange(1, 80).Draw(t, "n")
	var sb strings.Builder
	for i := 0; i < n; i++ {
		w := rapid.SampledFrom(vocabulary).Draw(t, "w")
		sb.WriteString(w)
		if !strings.HasPrefix(w, "\n") {
			sb.WriteString(rapid.SampledFrom([]string{" ", " ", " ", "", "\n", "\n\t"}).Draw(t, "sep"))
		}
	}
	return []byte(sb.String())
}

// structured soups: statement skeletons with holes filled from the vocabulary; reach deeper than flat soup
var skeletons = []string{
	"Die Zahl x ist %s.\n", "Der Text t ist %s.\n", "Die Funktion f mit dem Parameter a vom Typ %s, gibt %s zurück, macht:\n\tGib %s zurück.\nUnd kann so benutzt werden:\n\t\"%s\"\n",
	"Wenn %s, dann:\n\t%s.\nSonst:\n\t%s.\n", "Solange %s, mache:\n\t%s.\n", "Für jede Zahl i von %s bis %s, mache:\n\t%s.\n", "Für jeden %s e in %s, mache:\n\t%s.\n",
	"Wir nennen die Kombination aus\n\tder Zahl a mit Standardwert %s,\n\tdem %s b,\neinen K, und erstellen sie so:\n\t\"%s\"\n", "Wir nennen eine %s auch eine A.\n", "Wir definieren eine D als eine %s.\n",
	"Speichere %s in %s.\n", "Binde %s ein.\n", "Binde %s aus %s ein.\n", "Der Alias %s steht für die Funktion %s.\n", "Die Funktion g %s wird später definiert.\n",
	"Die generische Funktion h mit dem Parameter a vom Typ T, gibt %s zurück, macht:\n\tGib %s zurück.\nUnd kann so benutzt werden:\n\t\"h <a>\"\n", "Erhöhe %s um %s.\n", "%s.\n", "Wiederhole:\n\t%s.\n%s Mal.\n",
	"Die Funktion o mit den Parametern a und b vom Typ %s und %s, gibt %s zurück, macht:\n\tGib %s zurück.\nUnd überlädt den %s Operator.\n",
	"Die Konstante C ist %s.\n", "Die %s Liste l ist %s.\n", "Schreibe %s.\n",
}
var fillers = []string{"1", "x", "\"a\"", "wahr", "x plus 1", "(x)", "eine Zahl", "einen Text", "nichts", "Zahl", "Text", "Zahlen Liste", "K", "A", "D", "T", "f 1", "(f x)", "eine leere Zahlen Liste",
	"der Standardwert von einer Zahl", "x an der Stelle 1", "a von x", "x als Text", "die Länge von x", "nicht x", "-x", "x, falls y, ansonsten 1", "\"Duden/Ausgabe\"", "\"x\"", "foo", "plus", "mit", "", "(", ")", "ein K", "...",
	"Verlasse die Funktion", "Gib 1 zurück", "Speichere 1 in x", "Die Zahl y ist 2", "verlasse die Schleife", "fahre mit der Schleife fort"}

func GenSkeleton(t *rapid.T) []byte {
	n := rapid.IntRange(1, 8).Draw(t, "nstmts")
	var sb strings.Builder
	for i := 0; i < n; i++ {
		sk := rapid.SampledFrom(skeletons).Draw(t, "sk")
		holes := strings.Count(sk, "%s")
		args := make([]any, holes)
		for j := range args {
			if rapid.IntRange(0, 5).Draw(t, "vocab") == 0 {
				args[j] = rapid.SampledFrom(vocabulary).Draw(t, "v")
			} else {
				args[j] = rapid.SampledFrom(fillers).Draw(t, "f")
			}
		}
		sb.WriteString(fmt.Sprintf(sk, args...))
	}
	return []byte(sb.String())
}

// Mutate applies 1..4 token-level mutations.
func Mutate(t *rapid.T, c *Corpus, pieces []Piece) ([]Piece, []string) {
	p := append([]Piece(nil), pieces...)
	n := rapid.IntRange(1, 4).Draw(t, "nmut")
	var desc []string
	for m := 0; m < n && len(p) > 0; m++ {
		i := rapid.IntRange(0, len(p)-1).Draw(t, "at")
		switch op := rapid.IntRange(0, 9).Draw(t, "mut"); op {
		case 0: // delete
			desc = append(desc, fmt.Sprintf("delete[%d]%q", i, p[i].Lit))
			p = append(p[:i:i], p[i+1:]...)
		case 1: // duplicate
			desc = append(desc, fmt.Sprintf("dup[%d]%q", i, p[i].Lit))
			p = append(p[:i+1:i+1], p[i:]...)
		case 2: // transpose with a later token
			j := rapid.IntRange(0, len(p)-1).Draw(t, "with")
			desc = append(desc, fmt.Sprintf("swap[%d,%d]", i, j))
			p[i].Lit, p[j].Lit = p[j].Lit, p[i].Lit
		case 3: // splice a run from another file
			o := rapid.SampledFrom(c.Files).Draw(t, "donor")
			if len(o.Pieces) == 0 {
				continue
			}
			a := rapid.IntRange(0, len(o.Pieces)-1).Draw(t, "from")
			l := rapid.IntRange(1, 12).Draw(t, "len")
			b := min(len(o.Pieces), a+l)
			desc = append(desc, fmt.Sprintf("splice[%d]<-%s[%d:%d]", i, filepath.Base(filepath.Dir(o.Path)), a, b))
			np := append([]Piece(nil), p[:i]...)
			np = append(np, o.Pieces[a:b]...)
			p = append(np, p[i:]...)
		case 4: // truncate
			desc = append(desc, fmt.Sprintf("truncate[%d]", i))
			p = p[:i]
		case 5: // replace by a vocabulary token
			w := rapid.SampledFrom(vocabulary).Draw(t, "repl")
			desc = append(desc, fmt.Sprintf("replace[%d]%q->%q", i, p[i].Lit, w))
			p[i].Lit = w
		case 6: // insert a vocabulary token
			w := rapid.SampledFrom(vocabulary).Draw(t, "ins")
			desc = append(desc, fmt.Sprintf("insert[%d]%q", i, w))
			np := append([]Piece(nil), p[:i]...)
			np = append(np, Piece{" ", w})
			p = append(np, p[i:]...)
		case 7: // change indentation
			if strings.Contains(p[i].Pre, "\n") {
				if rapid.Bool().Draw(t, "deeper") {
					p[i].Pre += "\t"
				} else {
					p[i].Pre = strings.TrimSuffix(p[i].Pre, "\t")
				}
				desc = append(desc, fmt.Sprintf("indent[%d]", i))
			}
		case 8: // remove the blanks before a token / add a line break
			if rapid.Bool().Draw(t, "join") {
				p[i].Pre = ""
			} else {
				p[i].Pre = "\n"
			}
			desc = append(desc, fmt.Sprintf("blank[%d]", i))
		case 9: // cut a token in the middle (unterminated literals, half keywords)
			rs := []rune(p[i].Lit)
			if len(rs) > 1 {
				k := rapid.IntRange(1, len(rs)-1).Draw(t, "cut")
				desc = append(desc, fmt.Sprintf("cut[%d]%q", i, p[i].Lit))
				p[i].Lit = string(rs[:k])
			}
		}
	}
	return p, desc
}

// NearValid draws a corpus file and a mutant of it. The mutant is parsed with the original path as
// file name, so its imports (sibling files, Duden) still resolve.
func (c *Corpus) NearValid(t *rapid.T) (path string, src []byte, desc []string) {
	f := rapid.SampledFrom(c.Files).Draw(t, "file")
	p, desc := Mutate(t, c, f.Pieces)
	return f.Path, []byte(Join(p, f.Trail)), append([]string{filepath.Base(filepath.Dir(f.Path)) + "/" + filepath.Base(f.Path)}, desc...)
}

// ---------------------------------------------------------------- import arrangements

var moduleBodies = []string{
	"Die öffentliche Funktion f%[1]s gibt eine Zahl zurück, macht:\n\tGib 1 zurück.\nUnd kann so benutzt werden:\n\t\"f %[1]s\"\n",
	"Die Funktion p%[1]s gibt eine Zahl zurück, macht:\n\tGib 2 zurück.\nUnd kann so benutzt werden:\n\t\"p %[1]s\"\n",
	"Die öffentliche Zahl v%[1]s ist 3.\n", "Die Zahl w%[1]s ist 4.\n", "Die öffentliche Konstante K%[1]s ist 5.\n",
	"Wir nennen die öffentliche Kombination aus\n\tder öffentlichen Zahl a mit Standardwert 1,\neinen S%[1]s, und erstellen sie so:\n\t\"ein S%[1]s\"\n",
	"Wir nennen die öffentliche Kombination aus\n\tder öffentlichen Zahl a mit Standardwert 1,\neinen S, und erstellen sie so:\n\t\"ein S von %[1]s\"\n",
	"Wir nennen eine Zahl öffentlich auch eine A%[1]s.\n", "Wir definieren eine D%[1]s öffentlich als eine Zahl.\n",
	"Die öffentliche generische Funktion g%[1]s mit dem Parameter a vom Typ T, gibt einen T zurück, macht:\n\tGib a zurück.\nUnd kann so benutzt werden:\n\t\"g %[1]s <a>\"\n",
	"Die öffentliche Funktion gleich mit dem Parameter a vom Typ Zahl, gibt eine Zahl zurück, macht:\n\tGib a zurück.\nUnd kann so benutzt werden:\n\t\"gleichname <a>\"\n",
}

// GenImportArrangement builds 1..5 files that import each other in generated ways.
func GenImportArrangement(t *rapid.T) (files map[string]string, main string, desc []string) {
	names := []string{"m0", "m1", "m2", "m3", "sub/m4"}
	n := rapid.IntRange(1, 5).Draw(t, "nfiles")
	names = names[:n]
	files = map[string]string{}
	targets := append([]string{}, names...)
	targets = append(targets, "fehlt", "sub", ".", "..", "m0.ddp", "Duden/Ausgabe", "Duden/Fehlt", "", "sub/", "/", "m0/m1")
	for i, nm := range names {
		var sb strings.Builder
		ni := rapid.IntRange(0, 3).Draw(t, "nimports")
		for k := 0; k < ni; k++ {
			tg := rapid.SampledFrom(targets).Draw(t, "target")
			rel := tg
			if strings.HasPrefix(nm, "sub/") && !strings.HasPrefix(tg, "Duden") && rapid.Bool().Draw(t, "updir") {
				rel = "../" + tg
			}
			switch rapid.IntRange(0, 5).Draw(t, "style") {
			case 0, 1:
				fmt.Fprintf(&sb, "Binde \"%s\" ein.\n", rel)
			case 2:
				sym := rapid.SampledFrom([]string{"f", "p", "v", "w", "K", "S", "A", "D", "g", "gibtsnicht", "gleich"}).Draw(t, "sym")
				sfx := rapid.SampledFrom([]string{"m0", "m1", "m2", "m3", "m4", ""}).Draw(t, "sfx")
				fmt.Fprintf(&sb, "Binde %s%s aus \"%s\" ein.\n", sym, sfx, rel)
			case 3:
				fmt.Fprintf(&sb, "Binde fm0, vm1 und Km2 aus \"%s\" ein.\n", rel)
			case 4:
				fmt.Fprintf(&sb, "Binde alle Module aus \"%s\" ein.\n", rel)
			case 5:
				fmt.Fprintf(&sb, "Binde rekursiv alle Module aus \"%s\" ein.\n", rel)
			}
			desc = append(desc, fmt.Sprintf("%s->%s", nm, rel))
		}
		nb := rapid.IntRange(0, 4).Draw(t, "nbody")
		tag := strings.ReplaceAll(nm, "sub/", "")
		for k := 0; k < nb; k++ {
			sb.WriteString(fmt.Sprintf(rapid.SampledFrom(moduleBodies).Draw(t, "body"), tag))
		}
		if i == 0 {
			sb.WriteString("Die Zahl ergebnis ist 1.\n")
			if rapid.Bool().Draw(t, "use") {
				sb.WriteString(rapid.SampledFrom([]string{"Die Zahl r ist (f m1).\n", "Die Zahl r ist vm1 plus Km2.\n", "Die Zahl r ist (p m1).\n", "Die Zahl r ist wm1.\n", "Der Sm1 s ist ein Sm1.\n", "Die Zahl r ist (g m1 1).\n", "Der S s ist ein S von m1.\n"}).Draw(t, "usestmt"))
			}
		}
		files[nm+".ddp"] = sb.String()
	}
	if rapid.IntRange(0, 3).Draw(t, "extra-dir") == 0 {
		files["leer/"] = ""
	}
	return files, "m0.ddp", desc
}

// ---------------------------------------------------------------- stress shapes

// GenStress builds programs whose shape is hostile to a recursive-descent, alias-matching,
// generic-instantiating frontend: deep nesting, overload sets called in nested chains,
// recursive / mutually recursive generics across modules.
func GenStress(t *rapid.T) (files map[string]string, main string, desc []string) {
	files = map[string]string{}
	var sb strings.Builder
	switch shape := rapid.IntRange(0, 6).Draw(t, "shape"); shape {
	case 0: // deep parentheses / unary chains / list nesting
		d := rapid.IntRange(1, 400).Draw(t, "depth")
		open := rapid.SampledFrom([]string{"(", "nicht ", "-", "(der Betrag von ", "(die Länge von ", "(eine Liste, die aus ", "[", "\"<", "(f "}).Draw(t, "open")
		closeTok := map[string]string{"(": ")", "(der Betrag von ": ")", "(die Länge von ": ")", "(eine Liste, die aus ": " besteht)", "[": "]", "(f ": ")"}[open]
		sb.WriteString("Die Funktion f mit dem Parameter a vom Typ Zahl, gibt eine Zahl zurück, macht:\n\tGib a zurück.\nUnd kann so benutzt werden:\n\t\"f <a>\"\n\nDie Zahl x ist ")
		sb.WriteString(strings.Repeat(open, d) + "1" + strings.Repeat(closeTok, rapid.IntRange(0, d).Draw(t, "closed")) + ".\n")
		desc = []string{fmt.Sprintf("deep %q x%d", open, d)}
	case 1: // deep block nesting
		d := rapid.IntRange(1, 120).Draw(t, "depth")
		for i := 0; i < d; i++ {
			sb.WriteString(strings.Repeat("\t", i) + rapid.SampledFrom([]string{"Wenn wahr, dann:\n", "Solange falsch, mache:\n", ":\n", "Für jede Zahl i von 1 bis 2, mache:\n"}).Draw(t, "blk"))
		}
		sb.WriteString(strings.Repeat("\t", d) + "Die Zahl y ist 1.\n")
		desc = []string{fmt.Sprintf("blocks x%d", d)}
	case 2, 3: // overload set + nested call chain
		nov := rapid.IntRange(1, 5).Draw(t, "overloads")
		types := rapid.Permutation([]string{"Text", "Kommazahl", "Wahrheitswert", "Buchstabe", "Zahl", "Zahlen Liste"}).Draw(t, "types")[:nov]
		for i, ty := range types {
			art := "eine"
			if ty == "Text" || ty == "Wahrheitswert" || ty == "Buchstabe" {
				art = "einen"
			}
			if ty == "Buchstabe" {
				ty2 := "Buchstaben"
				fmt.Fprintf(&sb, "Die Funktion f%d mit dem Parameter a vom Typ %s, gibt %s %s zurück, macht:\n\tGib a zurück.\nUnd kann so benutzt werden:\n\t\"f <a>\"\n\n", i, "Buchstabe", art, ty2)
				continue
			}
			fmt.Fprintf(&sb, "Die Funktion f%d mit dem Parameter a vom Typ %s, gibt %s %s zurück, macht:\n\tGib a zurück.\nUnd kann so benutzt werden:\n\t\"f <a>\"\n\n", i, ty, art, ty)
		}
		d := rapid.IntRange(1, 40).Draw(t, "depth")
		arg := rapid.SampledFrom([]string{"1", "\"t\"", "wahr", "2,5", "'c'", "x", "(eine leere Zahlen Liste)"}).Draw(t, "arg")
		sb.WriteString("Die Variable x ist " + strings.Repeat("(f ", d) + arg + strings.Repeat(")", d) + ".\n")
		desc = []string{fmt.Sprintf("overloads=%v chain=%d arg=%s", types, d, arg)}
	default: // generics: recursive, calling each other, across modules
		var lib strings.Builder
		ng := rapid.IntRange(1, 3).Draw(t, "ngenerics")
		for i := 0; i < ng; i++ {
			callee := rapid.IntRange(0, ng-1).Draw(t, "callee")
			body := rapid.SampledFrom([]string{
				"\tWenn n kleiner als 1 ist, gib a zurück.\n\tGib (g%[2]d a (n minus 1)) zurück.\n",
				"\tGib a zurück.\n",
				"\tDer T b ist a.\n\tGib (g%[2]d b (n minus 1)) zurück.\n",
				"\tDie T Liste l ist eine leere T Liste.\n\tWenn n kleiner als 1 ist, gib a zurück.\n\tGib (g%[2]d (g%[2]d a 0) (n minus 1)) zurück.\n",
			}).Draw(t, "gbody")
			pub := rapid.SampledFrom([]string{"öffentliche ", "öffentliche ", ""}).Draw(t, "pub")
			fmt.Fprintf(&lib, "Die %sgenerische Funktion g%d mit den Parametern a und n vom Typ T und Zahl, gibt einen T zurück, macht:\n", pub, i)
			fmt.Fprintf(&lib, body, i, callee)
			fmt.Fprintf(&lib, "Und kann so benutzt werden:\n\t\"g%d <a> <n>\"\n\n", i)
		}
		useLib := rapid.Bool().Draw(t, "in-module")
		if useLib {
			files["lib.ddp"] = lib.String()
			sb.WriteString("Binde \"lib\" ein.\n")
		} else {
			sb.WriteString(lib.String())
		}
		nc := rapid.IntRange(1, 4).Draw(t, "ncalls")
		for i := 0; i < nc; i++ {
			arg := rapid.SampledFrom([]string{"1", "\"t\"", "wahr", "2,5", "(eine leere Zahlen Liste)", "(g0 1 1)"}).Draw(t, "garg")
			fmt.Fprintf(&sb, "Die Variable r%d ist (g%d %s %d).\n", i, rapid.IntRange(0, ng-1).Draw(t, "which"), arg, rapid.IntRange(0, 3).Draw(t, "n"))
		}
		desc = []string{fmt.Sprintf("generics=%d imported=%v", ng, useLib)}
	}
	files["main.ddp"] = sb.String()
	return files, "main.ddp", desc
}

// ---------------------------------------------------------------- diagnostic shapes (C07)

var validBits = []string{
	"Die Zahl z ist 1.\n", "Der Text t ist \"hällo €\".\n", "Die Zahlen Liste l ist eine Liste, die aus 1, 2, 3 besteht.\n",
	"Die Funktion f mit dem Parameter a vom Typ Zahl, gibt eine Zahl zurück, macht:\n\tGib a plus 1 zurück.\nUnd kann so benutzt werden:\n\t\"f <a>\"\n",
	"Die Funktion todo gibt nichts zurück, macht:\n\t...\nUnd kann so benutzt werden:\n\t\"todo\"\n",
	"Wir nennen die Kombination aus\n\tder Zahl x mit Standardwert 1,\neinen Punkt, und erstellen sie so:\n\t\"ein Punkt\"\n",
	"Die generische Funktion g mit dem Parameter a vom Typ T, gibt einen T zurück, macht:\n\tGib a zurück.\nUnd kann so benutzt werden:\n\t\"g <a>\"\n",
	"Wenn wahr, dann:\n\tDie Zahl innen ist 2.\n", "Für jede Zahl i von 1 bis 3, mache:\n\t...\n", "[ ein Kommentar ]\n",
	"Die Funktion spaeter mit dem Parameter a vom Typ Zahl, gibt eine Zahl zurück, wird später definiert\nUnd kann so benutzt werden:\n\t\"spaeter <a>\"\n",
	"Die Funktion spaeter2 gibt nichts zurück, wird später definiert\nUnd kann so benutzt werden:\n\t\"spaeter2\"\n",
	"Die Funktion spaeter macht:\n\tGib a zurück.\n",
}
var faultyBits = []string{
	"Die Zahl q ist \"text\".\n", "Die Zahl q ist unbekannt.\n", "Speichere 1 in nirgends.\n", "Die Zahl z ist 2.\n", "Der Zahl m ist 1.\n", "Die Zahl ist 1.\n",
	"Die Variable v ist (g \"x\" plus 1).\n", "Die Zahl r ist (f \"falsch\").\n", "Die Zahl r ist (f 1 2).\n", "Verlasse die Schleife.\n", "Gib 1 zurück.\n",
	"Die Funktion h mit dem Parameter a vom Typ Zahl, gibt eine Zahl zurück, macht:\n\tSpeichere 1 in a.\nUnd kann so benutzt werden:\n\t\"h <b>\"\n",
	"Die Funktion h2 mit dem Parameter a vom Typ Zahl, gibt eine Zahl zurück, macht:\n\tGib \"t\" zurück.\nUnd kann so benutzt werden:\n\t\"h2 <a> <a>\"\n",
	"Die generische Funktion gg mit dem Parameter a vom Typ T, gibt einen T zurück, macht:\n\tGib a plus 1 zurück.\nUnd kann so benutzt werden:\n\t\"gg <a>\"\nDer Text tt ist (gg \"x\").\n",
	"Die Funktion k gibt eine Zahl zurück, macht:\n\tDie Zahl lokal ist 1.\nUnd kann so benutzt werden:\n\t\"k\"\n",
	"Wenn 1, dann:\n\tDie Zahl w ist 1.\n", "Die Zahl e ist 1", "Der Text u ist \"offen.\n", "Der Buchstabe c ist 'ab'.\n", "Die Zahl gross ist 99999999999999999999.\n", "Der Text esc ist \"a\\qb\".\n",
	"Der Alias \"f neu <a>\" steht für die Funktion f.\n", "Der Alias \"kaputt <zz>\" steht für die Funktion f.\n", "Binde \"gibtsnicht\" ein.\n", "Binde \"kaputt\" ein.\n", "Binde nix aus \"gut\" ein.\n", "Binde \"gut\" ein.\n",
	"Die Zahl x1 ist 1 plus.\n", "Die Zahl x2 ist (1 plus 2.\n", "Wir nennen eine Unbekannt auch eine Neu.\n", "Die öffentliche Zahl oe ist 1.\n\tDie öffentliche Zahl oe2 ist 2.\n",
}

// GenDiagShapes builds small programs from valid and faulty statements in generated order, with generated
// line-break conventions and an optional broken / fine imported module.
func GenDiagShapes(t *rapid.T) (files map[string]string, main string, desc []string) {
	files = map[string]string{
		"gut.ddp":    "Die öffentliche Funktion gut gibt eine Zahl zurück, macht:\n\tGib 1 zurück.\nUnd kann so benutzt werden:\n\t\"gut\"\n",
		"kaputt.ddp": "Die öffentliche Funktion kap gibt eine Zahl zurück, macht:\n\tGib \"t\" zurück.\nUnd kann so benutzt werden:\n\t\"kap\"\nDie Zahl ist.\n",
	}
	var sb strings.Builder
	n := rapid.IntRange(0, 6).Draw(t, "nvalid")
	nf := rapid.IntRange(0, 2).Draw(t, "nfaulty")
	var bits []string
	for i := 0; i < n; i++ {
		bits = append(bits, rapid.SampledFrom(validBits).Draw(t, "v"))
	}
	for i := 0; i < nf; i++ {
		at := rapid.IntRange(0, len(bits)).Draw(t, "pos")
		fb := rapid.SampledFrom(faultyBits).Draw(t, "f")
		desc = append(desc, strings.SplitN(fb, "\n", 2)[0])
		bits = append(bits[:at:at], append([]string{fb}, bits[at:]...)...)
	}
	for _, b := range bits {
		sb.WriteString(b)
		if rapid.Bool().Draw(t, "blank") {
			sb.WriteString("\n")
		}
	}
	s := sb.String()
	switch rapid.IntRange(0, 4).Draw(t, "eol") {
	case 0:
		s = strings.TrimRight(s, "\n")
		desc = append(desc, "no-final-newline")
	case 1:
		s = strings.ReplaceAll(s, "\n", "\r\n")
		desc = append(desc, "crlf")
	case 2:
		s = strings.TrimRight(s, "\n.")
		desc = append(desc, "cut-last-dot")
	}
	files["main.ddp"] = s
	return files, "main.ddp", desc
}
