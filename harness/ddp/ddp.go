// Package ddp drives the toolchain built from the tree under test: kddp CLI, gcc link, program runs.
package ddp

import (
	"bytes"
	"context"
	"fmt"
	"os"
	"os/exec"
	"path/filepath"
	"strings"
	"syscall"
	"time"
)

var Work = os.Getenv("VERIF_WORK")

func Kddp() string   { return filepath.Join(Work, "ddp/bin/kddp") }
func DDPPath() string { return filepath.Join(Work, "ddp") }
func Locale() string { return filepath.Join(Work, "locale") }

type Result struct {
	Exit     int
	Signal   string // non-empty if the process was killed by a signal
	Stdout   string
	Stderr   string
	TimedOut bool
	Dur      time.Duration
}

func (r Result) String() string {
	s := fmt.Sprintf("exit=%d", r.Exit)
	if r.Signal != "" {
		s += " signal=" + r.Signal
	}
	if r.TimedOut {
		s += " TIMEOUT"
	}
	return s
}

func run(dir string, timeout time.Duration, env []string, stdin string, name string, args ...string) Result {
	ctx, cancel := context.WithTimeout(context.Background(), timeout)
	defer cancel()
	cmd := exec.CommandContext(ctx, name, args...)
	cmd.Dir = dir
	cmd.Env = append(os.Environ(), env...)
	var so, se bytes.Buffer
	cmd.Stdout, cmd.Stderr = &so, &se
	if stdin != "" {
		cmd.Stdin = strings.NewReader(stdin)
	}
	start := time.Now()
	err := cmd.Run()
	res := Result{Stdout: so.String(), Stderr: se.String(), Dur: time.Since(start)}
	if ctx.Err() == context.DeadlineExceeded {
		res.TimedOut = true
	}
	if cmd.ProcessState != nil {
		res.Exit = cmd.ProcessState.ExitCode()
		if ws, ok := cmd.ProcessState.Sys().(syscall.WaitStatus); ok && ws.Signaled() {
			res.Signal = ws.Signal().String()
		}
	} else if err != nil {
		res.Exit = -1
		res.Stderr += "\nharness: " + err.Error()
	}
	return res
}

// Compile runs `kddp kompiliere main -o out extra...` in dir.
func Compile(dir, main, out string, extra ...string) Result {
	args := append([]string{"kompiliere", main, "-o", out}, extra...)
	r := run(dir, 120*time.Second, []string{"DDPPATH=" + DDPPath()}, "", Kddp(), args...)
	if r.Exit != 0 && !ToolchainPresent() {
		// the build directory vanished under the run (infrastructure): never a verdict about the tree
		r.TimedOut = true
		r.Stderr += "\nharness: toolchain directory " + Work + " is incomplete"
	}
	return r
}

// ToolchainPresent reports whether the build directory of this run is still complete.
func ToolchainPresent() bool {
	for _, p := range []string{Kddp(), filepath.Join(Work, "ddp/lib/libddpruntime.a"), filepath.Join(Work, "ddp/lib/ddp_list_types_defs.ll"), filepath.Join(Work, "ddp/Duden/Ausgabe.ddp"), filepath.Join(Work, ".ok")} {
		if _, err := os.Stat(p); err != nil {
			return false
		}
	}
	return true
}

// Exec runs a compiled program with the patched de_DE locale.
func Exec(dir, exe string, stdin string, args ...string) Result {
	return run(dir, 20*time.Second, []string{"LOCPATH=" + Locale(), "ASAN_OPTIONS=exitcode=99:detect_leaks=1:abort_on_error=0", "UBSAN_OPTIONS=halt_on_error=1:exitcode=99:print_stacktrace=1"}, stdin, exe, args...)
}

// Run runs an arbitrary command.
func Run(dir string, timeout time.Duration, name string, args ...string) Result {
	return run(dir, timeout, nil, "", name, args...)
}

// LinkObject links a kddp-produced object with gcc against the plain or asan runtime.
// extra are additional objects/flags (e.g. the memory ledger with --wrap).
func LinkObject(dir, obj, exe string, asan bool, listDefs bool, extra ...string) Result {
	lib := filepath.Join(Work, "ddp/lib")
	args := []string{"-o", exe}
	if asan {
		lib = filepath.Join(Work, "ddp-asan/lib")
		args = append(args, "-fsanitize=address,undefined")
	}
	args = append(args, obj)
	args = append(args, extra...)
	args = append(args, "-L"+lib, "-lddpstdlib")
	if listDefs {
		args = append(args, filepath.Join(lib, "ddp_list_types_defs.o"))
	}
	args = append(args, "-lddpruntime", "-lm", filepath.Join(lib, "main.o"))
	r := run(dir, 120*time.Second, nil, "", "gcc", args...)
	if r.Exit != 0 && !ToolchainPresent() {
		r.TimedOut = true
		r.Stderr += "\nharness: toolchain directory " + Work + " is incomplete"
	}
	return r
}

// Classify the stderr/exit of a program run.
// the runtime installs a SIGSEGV handler that reports "Laufzeitfehler: Segmentation fault" and exits 1:
// that is a crash, not a Laufzeitfehler of the language
func IsLaufzeitfehler(r Result) bool {
	return r.Exit == 1 && r.Signal == "" && strings.Contains(r.Stderr, "Laufzeitfehler") && !IsSegfault(r)
}
func IsSegfault(r Result) bool { return strings.Contains(r.Stderr, "Segmentation fault") }
func IsSanitizerReport(r Result) bool {
	return r.Exit == 99 || strings.Contains(r.Stderr, "AddressSanitizer") || strings.Contains(r.Stderr, "runtime error:") || strings.Contains(r.Stderr, "LeakSanitizer")
}

// TempDir creates a scratch directory for one case.
func TempDir(prefix string) string {
	d, err := os.MkdirTemp("", prefix)
	if err != nil {
		panic(err)
	}
	return d
}

func WriteFiles(dir string, files map[string]string) {
	for n, s := range files {
		p := filepath.Join(dir, n)
		os.MkdirAll(filepath.Dir(p), 0o755)
		os.WriteFile(p, []byte(s), 0o644)
	}
}

func Trunc(s string, n int) string {
	if len(s) > n {
		return s[:n] + "…"
	}
	return s
}

// BuildChecked compiles main with kddp to an object file and links it against the ASan/UBSan build of
// runtime and stdlib with the allocation ledger interposed on ddp_reallocate.
func BuildChecked(dir, main, exe string, level int) (Result, string) {
	obj := exe + ".o"
	cr := Compile(dir, main, obj, "-O", fmt.Sprint(level))
	if cr.Exit != 0 || cr.TimedOut {
		return cr, "compile"
	}
	lr := LinkObject(dir, obj, exe, true, false, filepath.Join(Work, "obj/memledger.o"), "-Wl,--wrap=ddp_reallocate")
	return lr, "link"
}

// ExecChecked runs a BuildChecked executable; stats = "allocations frees live peak".
func ExecChecked(dir, exe string) (Result, [4]int64) {
	stats := filepath.Join(dir, filepath.Base(exe)+".ledger")
	os.Remove(stats)
	r := run(dir, 30*time.Second, []string{"LOCPATH=" + Locale(), "VERIF_LEDGER_STATS=" + stats,
		"ASAN_OPTIONS=exitcode=99:detect_leaks=1:abort_on_error=0:allocator_may_return_null=1", "UBSAN_OPTIONS=halt_on_error=1:exitcode=99:print_stacktrace=1", "LSAN_OPTIONS=exitcode=99"}, "", exe)
	var st [4]int64
	if b, err := os.ReadFile(stats); err == nil {
		fmt.Sscanf(string(b), "%d %d %d %d", &st[0], &st[1], &st[2], &st[3])
	}
	return r, st
}

func IsLedgerReport(r Result) bool { return r.Exit == 97 || strings.Contains(r.Stderr, "VERIF-LEDGER") }

// ExecNoLeak runs a program linked against the sanitizer build without leak detection
// (a program that stops with a Laufzeitfehler does not release its memory).
func ExecNoLeak(dir, exe string, args ...string) Result {
	return run(dir, 20*time.Second, []string{"LOCPATH=" + Locale(), "ASAN_OPTIONS=exitcode=99:detect_leaks=0:abort_on_error=0", "UBSAN_OPTIONS=halt_on_error=1:exitcode=99:print_stacktrace=1"}, "", exe, args...)
}
