// feprobe <file.ddp | case.json>: parse in-process and print diagnostics / panic stack (debug aid).
package main

import (
	"encoding/json"
	"fmt"
	"os"
	"strings"

	"github.com/DDP-Projekt/Kompilierer/src/ddperror"
	"github.com/DDP-Projekt/Kompilierer/src/parser"
)

func main() {
	path := os.Args[1]
	opts := parser.Options{FileName: path}
	if strings.HasSuffix(path, ".json") {
		var w struct {
			Case struct {
				Main   string `json:"main"`
				Source []byte `json:"source"`
			} `json:"case"`
		}
		b, _ := os.ReadFile(path)
		json.Unmarshal(b, &w)
		opts = parser.Options{FileName: w.Case.Main, Source: w.Case.Source}
	}
	opts.ErrorHandler = func(e ddperror.Error) {
		fmt.Printf("diag (%04d) L%d %d:%d-%d:%d %s\n", e.Code, e.Level, e.Range.Start.Line, e.Range.Start.Column, e.Range.End.Line, e.Range.End.Column, e.Msg)
	}
	defer func() {
		if r := recover(); r != nil {
			s := fmt.Sprint(r)
			if len(s) > 6000 {
				s = s[:6000]
			}
			fmt.Println("PANIC:", s)
		}
	}()
	m, err := parser.Parse(opts)
	fmt.Println("err:", err)
	if m != nil {
		fmt.Println("faulty:", m.Ast.Faulty)
	}
}
