// merge combines the per-shard outputs of one check run into the evidence file,
// writes replay directories, prints KNOWN-FINDING / VIOLATION lines and sets the
// exit status (0 held, 1 violation, 2 inconclusive/infrastructure).
package main

import (
	"crypto/sha256"
	"encoding/binary"
	"encoding/json"
	"flag"
	"fmt"
	"os"
	"path/filepath"
	"sort"
	"strings"

	"verif/vf"
)

type shardOut struct {
	Property    string            `json:"property"`
	Shard       int               `json:"shard"`
	Evaluations int64             `json:"evaluations"`
	Counters    map[string]int64  `json:"counters"`
	Samples     []any             `json:"samples"`
	Failures    []*vf.Failure     `json:"failures"`
	KnownHits   map[string]int64  `json:"known_hits"`
	KnownEx     map[string]string `json:"known_examples"`
	Extra       map[string]any    `json:"extra"`
	Exhaustive  bool              `json:"exhaustive"`
	Rule        string            `json:"rule"`
	Level       string            `json:"level"`
	Assumptions []string          `json:"assumptions"`
	Completed   bool              `json:"completed"`
}

func main() {
	id := flag.String("id", "", "property id")
	out := flag.String("out", "", "shard output dir")
	tier := flag.String("tier", "quick", "")
	seed := flag.Int("seed", 1, "")
	wall := flag.Float64("wall", 0, "")
	nshards := flag.Int("nshards", 1, "")
	verif := flag.String("verif", "/verif", "")
	flag.Parse()

	var (
		evals      int64
		counters   = map[string]int64{}
		samples    []any
		failures   []*vf.Failure
		knownHits  = map[string]int64{}
		knownEx    = map[string]string{}
		extra      = map[string]any{}
		hashes     = map[uint64]struct{}{}
		rule       string
		level      = "exploration"
		assum      []string
		exhaustive = true
		missing    []int
	)
	for k := 0; k < *nshards; k++ {
		b, err := os.ReadFile(filepath.Join(*out, fmt.Sprintf("shard-%d.json", k)))
		if err != nil {
			missing = append(missing, k)
			continue
		}
		var s shardOut
		if err := json.Unmarshal(b, &s); err != nil {
			missing = append(missing, k)
			continue
		}
		if !s.Completed {
			missing = append(missing, k)
		}
		evals += s.Evaluations
		for n, v := range s.Counters {
			counters[n] += v
		}
		for _, x := range s.Samples {
			if len(samples) < 8 {
				samples = append(samples, x)
			}
		}
		failures = append(failures, s.Failures...)
		for n, v := range s.KnownHits {
			knownHits[n] += v
		}
		for n, v := range s.KnownEx {
			if _, ok := knownEx[n]; !ok {
				knownEx[n] = v
			}
		}
		for n, v := range s.Extra {
			extra[n] = v
		}
		if s.Rule != "" {
			rule = s.Rule
		}
		if s.Level != "" {
			level = s.Level
		}
		if len(s.Assumptions) > 0 {
			assum = s.Assumptions
		}
		exhaustive = exhaustive && s.Exhaustive
		hb, _ := os.ReadFile(filepath.Join(*out, fmt.Sprintf("shard-%d.hashes", k)))
		for i := 0; i+8 <= len(hb); i += 8 {
			hashes[binary.LittleEndian.Uint64(hb[i:])] = struct{}{}
		}
	}

	// witnesses of listed findings
	findings := []vf.Finding{}
	for _, f := range loadFindings(*verif) {
		if f.Property == *id {
			findings = append(findings, f)
		}
	}
	violations := 0
	var lines []string
	for _, f := range findings {
		rc := -1
		if b, err := os.ReadFile(filepath.Join(*out, "witness-"+f.ID+".rc")); err == nil {
			fmt.Sscanf(strings.TrimSpace(string(b)), "%d", &rc)
		}
		switch f.Status {
		case "known":
			if rc == 1 || knownHits[f.ID] > 0 {
				lines = append(lines, fmt.Sprintf("KNOWN-FINDING: property=%s %s [%s; witness %s; %d generated cases excluded]", *id, f.What, f.ID, map[bool]string{true: "still fails", false: "not replayed"}[rc == 1], knownHits[f.ID]))
			}
			if rc >= 2 {
				missing = append(missing, -1)
				fmt.Fprintf(os.Stderr, "witness %s: replay infrastructure error rc=%d\n", f.ID, rc)
			}
		case "fixed":
			if rc == 1 {
				violations++
				lines = append(lines, fmt.Sprintf("VIOLATION property=%s replay=%s", *id, filepath.Join(*verif, f.Witness)))
			} else if rc >= 2 {
				missing = append(missing, -1)
			}
		}
	}

	// new failures -> replay dirs (one per signature)
	seen := map[string]bool{}
	for _, f := range failures {
		if seen[f.Signature] {
			continue
		}
		seen[f.Signature] = true
		violations++
		h := sha256.Sum256(append([]byte(f.Signature), f.Case...))
		dir := filepath.Join(*verif, "replays", *id, fmt.Sprintf("%x", h[:6]))
		os.MkdirAll(dir, 0o755)
		b, _ := json.MarshalIndent(f, "", " ")
		os.WriteFile(filepath.Join(dir, "case.json"), b, 0o644)
		os.WriteFile(filepath.Join(dir, "detail.txt"), []byte(f.Signature+"\n\n"+f.Detail+"\n"), 0o644)
		lines = append(lines, fmt.Sprintf("VIOLATION property=%s replay=%s", *id, dir))
		fmt.Fprintf(os.Stderr, "--- %s [%s]\n%s\n", *id, f.Signature, trunc(f.Detail, 3000))
	}

	// evidence
	hist := map[string]int64{}
	names := make([]string, 0, len(counters))
	for n := range counters {
		names = append(names, n)
	}
	sort.Strings(names)
	for _, n := range names {
		hist[n] = counters[n]
	}
	cov := map[string]any{
		"evaluations":         evals,
		"distinct_nontrivial": len(hashes),
		"rule":                rule,
		"samples":             samples,
		"exhaustive":          exhaustive && len(missing) == 0,
		"counters":            hist,
		"shards":              *nshards,
	}
	for n, v := range extra {
		cov[n] = v
	}
	if len(knownHits) > 0 {
		cov["known_finding_hits"] = knownHits
	}
	if len(samples) == 0 {
		cov["samples"] = []any{"(no sample recorded)"}
	}
	ev := map[string]any{
		"property_id": *id, "tier": *tier, "seed": *seed, "level": level,
		"coverage": cov, "assumptions": assum, "wall_s": *wall, "violations": violations,
	}
	if len(missing) > 0 {
		ev["inconclusive_shards"] = missing
	}
	b, _ := json.MarshalIndent(ev, "", " ")
	// runs against a scratch copy of the repository (seeded changes, old commits) must not overwrite the
	// evidence of the tree under test
	evDir := filepath.Join(*verif, "evidence")
	if r := os.Getenv("VERIF_REPO"); r != "" && r != "/repo" {
		evDir = filepath.Join(*verif, ".work", "evidence-scratch")
	}
	os.MkdirAll(evDir, 0o755)
	if err := os.WriteFile(filepath.Join(evDir, *id+".json"), append(b, '\n'), 0o644); err != nil {
		fmt.Fprintln(os.Stderr, "cannot write evidence:", err)
		os.Exit(2)
	}
	for _, l := range lines {
		fmt.Println(l)
	}
	fmt.Printf("%s %s seed=%d: evaluations=%d distinct_nontrivial=%d violations=%d wall=%.0fs\n", *id, *tier, *seed, evals, len(hashes), violations, *wall)
	switch {
	case violations > 0:
		os.Exit(1)
	case len(missing) > 0:
		fmt.Fprintf(os.Stderr, "INCONCLUSIVE: shards without a completed result: %v\n", missing)
		os.Exit(2)
	case evals == 0 || len(hashes) < 2:
		fmt.Fprintf(os.Stderr, "INCONCLUSIVE: generator health: evaluations=%d distinct_nontrivial=%d\n", evals, len(hashes))
		os.Exit(2)
	}
}

func trunc(s string, n int) string {
	if len(s) > n {
		return s[:n] + "…"
	}
	return s
}

func loadFindings(verif string) []vf.Finding {
	b, err := os.ReadFile(filepath.Join(verif, "known_findings.json"))
	if err != nil {
		return nil
	}
	var fs []vf.Finding
	json.Unmarshal(b, &fs)
	return fs
}
