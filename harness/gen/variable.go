package gen

import (
	"fmt"
	"strings"

	"pgregory.net/rapid"
)

// GenerateVariableProgram builds a program about the type Variable together with its expected output (the
// model lives here: dynamic type + value, everything is copied, only Referenz parameters alias).
// Holders: four Variable variables, a Variablen Liste, a Kombination with a Variable field, and typed source
// variables; operations store typed values into Variables, copy between holders, mutate the sources, pass
// Variables by value and by Referenz, convert back and compare. Every holder is shown through a function
// that finds the dynamic type by type checks and converts back.
func GenerateVariableProgram(t *rapid.T, wrapMain bool) (src, expect string, feats map[string]int) {
	feats = map[string]int{}
	type val struct {
		typ string // Zahl Kommazahl Text Buchstabe Wahrheitswert Liste Punkt
		s   string // rendering as zeige prints it
	}
	show := func(v val) string { return v.typ + " " + v.s + "\n" }
	lits := []struct {
		v   val
		ddp string
	}{
		{val{"Zahl", "0"}, "0"}, {val{"Zahl", "-7"}, "(-7)"}, {val{"Zahl", "9223372036854775807"}, "9223372036854775807"},
		{val{"Kommazahl", "2,5"}, "2,5"}, {val{"Kommazahl", "-0,25"}, "(-0,25)"},
		{val{"Text", "[]"}, "\"\""}, {val{"Text", "[kurz]"}, "\"kurz\""}, {val{"Text", "[ein ziemlich langer Text mit ä und €]"}, "\"ein ziemlich langer Text mit ä und €\""},
		{val{"Buchstabe", "ß"}, "'ß'"}, {val{"Wahrheitswert", "wahr"}, "wahr"}, {val{"Wahrheitswert", "falsch"}, "falsch"},
		{val{"Liste", "0:"}, "(eine leere Zahlen Liste)"}, {val{"Liste", "3: 1 2 3"}, "(eine Liste, die aus 1, 2, 3 besteht)"},
		{val{"Punkt", "4 [vier]"}, "(ein Punkt mit 4 und \"vier\")"}, {val{"Punkt", "-1 []"}, "(ein Punkt mit (-1) und \"\")"},
	}
	var body, out strings.Builder
	// model state
	vars := []val{{"Zahl", "0"}, {"Zahl", "0"}, {"Zahl", "0"}, {"Zahl", "0"}}
	list := []val{{"Zahl", "1"}, {"Text", "[zwei]"}, {"Wahrheitswert", "wahr"}}
	field := val{"Zahl", "0"}
	srcText, srcList := "quelle", []string{"5", "6"}
	listShown := func() string { return fmt.Sprintf("%d: %s", len(srcList), strings.Join(srcList, " ")) }

	emitShow := func(expr string, v val) {
		fmt.Fprintf(&body, "zeige %s.\n", expr)
		out.WriteString(show(v))
	}
	n := rapid.IntRange(6, 16).Draw(t, "var-ops")
	for k := 0; k < n; k++ {
		i := rapid.IntRange(0, 3).Draw(t, "vi")
		j := rapid.IntRange(0, 3).Draw(t, "vj")
		switch op := rapid.IntRange(0, 13).Draw(t, "var-op"); op {
		case 0, 1: // store a literal
			l := lits[rapid.IntRange(0, len(lits)-1).Draw(t, "lit")]
			fmt.Fprintf(&body, "Speichere %s in v%d.\n", l.ddp, i)
			vars[i] = l.v
			feats["var:store:"+l.v.typ]++
		case 2: // store a typed variable, then change the variable
			if rapid.Bool().Draw(t, "text-or-list") {
				fmt.Fprintf(&body, "Speichere quelltext in v%d.\nSpeichere quelltext verkettet mit \"!\" in quelltext.\n", i)
				vars[i] = val{"Text", "[" + srcText + "]"}
				srcText += "!"
			} else {
				fmt.Fprintf(&body, "Speichere quellliste in v%d.\nSpeichere quellliste verkettet mit 9 in quellliste.\n", i)
				vars[i] = val{"Liste", listShown()}
				srcList = append(srcList, "9")
			}
			feats["var:store-then-mutate-source"]++
		case 3: // copy between Variables
			fmt.Fprintf(&body, "Speichere v%d in v%d.\n", j, i)
			vars[i] = vars[j]
			feats["var:copy"]++
		case 4: // into / out of the Variablen Liste
			p := rapid.IntRange(1, len(list)).Draw(t, "pos")
			if rapid.Bool().Draw(t, "into-list") {
				fmt.Fprintf(&body, "Speichere v%d in vliste an der Stelle %d.\n", i, p)
				list[p-1] = vars[i]
			} else {
				fmt.Fprintf(&body, "Speichere (vliste an der Stelle %d) in v%d.\n", p, i)
				vars[i] = list[p-1]
			}
			feats["var:list-element"]++
		case 5: // append to the Variablen Liste
			if len(list) < 6 {
				fmt.Fprintf(&body, "Speichere vliste verkettet mit v%d in vliste.\n", i)
				list = append(list, vars[i])
				feats["var:list-append"]++
			}
		case 6: // into / out of the Kombination field
			if rapid.Bool().Draw(t, "into-field") {
				fmt.Fprintf(&body, "Speichere v%d in inhalt von kiste.\n", i)
				field = vars[i]
			} else {
				fmt.Fprintf(&body, "Speichere (inhalt von kiste) in v%d.\n", i)
				vars[i] = field
			}
			feats["var:field"]++
		case 7: // by value to a function that overwrites its parameter
			fmt.Fprintf(&body, "verbrauche v%d.\n", i)
			out.WriteString(show(vars[i]))
			feats["var:by-value-callee-overwrites"]++
		case 8: // by Referenz: the callee stores something else
			fmt.Fprintf(&body, "ersetze v%d.\n", i)
			vars[i] = val{"Text", "[ersetzt]"}
			feats["var:by-referenz"]++
		case 9: // returned from a function
			fmt.Fprintf(&body, "Speichere (dasselbe wie v%d) in v%d.\n", j, i)
			vars[i] = vars[j]
			feats["var:returned"]++
		case 10: // equality: same dynamic type and equal value
			fmt.Fprintf(&body, "Schreibe (v%d gleich v%d ist) auf eine Zeile.\n", i, j)
			if vars[i] == vars[j] {
				out.WriteString("wahr\n")
			} else {
				out.WriteString("falsch\n")
			}
			feats["var:equality"]++
		case 11: // convert back, change the converted value, store it again in another holder
			switch vars[j].typ {
			case "Text":
				fmt.Fprintf(&body, "Speichere ((v%d als Text) verkettet mit \"+\") in v%d.\n", j, i)
				vars[i] = val{"Text", strings.TrimSuffix(vars[j].s, "]") + "+]"}
			case "Zahl":
				if vars[j].s != "9223372036854775807" {
					fmt.Fprintf(&body, "Speichere ((v%d als Zahl) plus 1) in v%d.\n", j, i)
					var x int64
					fmt.Sscan(vars[j].s, &x)
					vars[i] = val{"Zahl", fmt.Sprint(x + 1)}
				}
			}
			feats["var:convert-back-and-change"]++
		case 12: // loop that overwrites a holder repeatedly (the old contents must be released, C05)
			fmt.Fprintf(&body, "Für jede Zahl runde von 1 bis 3, mache:\n\tSpeichere (\"runde \" verkettet mit (runde als Text)) in v%d.\n", i)
			vars[i] = val{"Text", "[runde 3]"}
			feats["var:overwrite-in-loop"]++
		default:
			emitShow(fmt.Sprintf("v%d", i), vars[i])
		}
	}
	// final state of every holder
	for i := range vars {
		emitShow(fmt.Sprintf("v%d", i), vars[i])
	}
	for p := range list {
		emitShow(fmt.Sprintf("(vliste an der Stelle %d)", p+1), list[p])
	}
	emitShow("(inhalt von kiste)", field)
	body.WriteString("Schreibe quelltext auf eine Zeile.\nSchreibe (die Länge von quellliste) auf eine Zeile.\n")
	fmt.Fprintf(&out, "%s\n%d\n", srcText, len(srcList))

	decls := `Binde "Duden/Ausgabe" ein.

Wir nennen die Kombination aus
	der Zahl x mit Standardwert 0,
	dem Text name mit Standardwert "",
einen Punkt, und erstellen sie so:
	"ein Punkt mit <x> und <name>"

Wir nennen die Kombination aus
	der Zahl nummer mit Standardwert 1,
	der Variable inhalt mit Standardwert 0,
eine Kiste, und erstellen sie so:
	"eine Kiste mit <nummer>"

Die Funktion zeige_var mit dem Parameter v vom Typ Variable, gibt nichts zurück, macht:
	Wenn v eine Zahl ist, dann:
		Schreibe "Zahl ".
		Schreibe (v als Zahl) auf eine Zeile.
	Wenn aber v eine Kommazahl ist, dann:
		Schreibe "Kommazahl ".
		Schreibe (v als Kommazahl) auf eine Zeile.
	Wenn aber v ein Text ist, dann:
		Schreibe "Text [".
		Schreibe (v als Text).
		Schreibe "]" auf eine Zeile.
	Wenn aber v ein Buchstabe ist, dann:
		Schreibe "Buchstabe ".
		Schreibe (v als Buchstabe) auf eine Zeile.
	Wenn aber v ein Wahrheitswert ist, dann:
		Schreibe "Wahrheitswert ".
		Schreibe (v als Wahrheitswert) auf eine Zeile.
	Wenn aber v eine Zahlen Liste ist, dann:
		Die Zahlen Liste l ist v als Zahlen Liste.
		Schreibe "Liste ".
		Schreibe (die Länge von l).
		Schreibe ":".
		Für jede Zahl e in l, mache:
			Schreibe " ".
			Schreibe e.
		Schreibe "" auf eine Zeile.
	Wenn aber v ein Punkt ist, dann:
		Der Punkt p ist v als Punkt.
		Schreibe "Punkt ".
		Schreibe (x von p).
		Schreibe " [".
		Schreibe (name von p).
		Schreibe "]" auf eine Zeile.
	Sonst Schreibe "unbekannt" auf eine Zeile.
Und kann so benutzt werden:
	"zeige <v>"

Die Funktion verbrauche_var mit dem Parameter v vom Typ Variable, gibt nichts zurück, macht:
	zeige v.
	Speichere "vom Aufgerufenen überschrieben" in v.
Und kann so benutzt werden:
	"verbrauche <v>"

Die Funktion ersetze_var mit dem Parameter r vom Typ Variablen Referenz, gibt nichts zurück, macht:
	Speichere "ersetzt" in r.
Und kann so benutzt werden:
	"ersetze <r>"

Die Funktion dasselbe_var mit dem Parameter v vom Typ Variable, gibt eine Variable zurück, macht:
	Gib v zurück.
Und kann so benutzt werden:
	"dasselbe wie <v>"

`
	holders := `Die Variable v0 ist 0.
Die Variable v1 ist 0.
Die Variable v2 ist 0.
Die Variable v3 ist 0.
Die Variablen Liste vliste ist eine Liste, die aus 1 als Variable, "zwei" als Variable, wahr als Variable besteht.
Die Kiste kiste ist eine Kiste mit 1.
Der Text quelltext ist "quelle".
Die Zahlen Liste quellliste ist eine Liste, die aus 5, 6 besteht.
`
	main := holders + body.String()
	if wrapMain {
		var ind strings.Builder
		for _, l := range strings.Split(strings.TrimRight(main, "\n"), "\n") {
			ind.WriteString("\t" + l + "\n")
		}
		main = "Die Funktion hauptteil gibt nichts zurück, macht:\n" + ind.String() + "Und kann so benutzt werden:\n\t\"starte den hauptteil\"\n\nstarte den hauptteil.\n"
		feats["main-in-function"]++
	}
	return decls + main, out.String(), feats
}
