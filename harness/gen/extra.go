package gen

import (
	"fmt"
	"strings"

	"pgregory.net/rapid"
)

// GenerateRecursionOverloadProgram builds a program about two things the typed generator does not produce:
// recursive functions (direct, mutual through a forward declaration, with temporaries and a Referenz
// accumulator across the recursion) and user-defined operator overloads on a Kombination (binary, unary,
// comparison, conversion) inside nested expressions. The expected output comes from a model in this file.
func GenerateRecursionOverloadProgram(t *rapid.T, wrapMain bool) (src, expect string, feats map[string]int) {
	feats = map[string]int{}
	var body, out strings.Builder

	// ------------------------------------------------ operator overloads
	type vek struct {
		x, y int64
		n    string
	}
	str := func(v vek) string { return fmt.Sprintf("(%d|%d|%s)", v.x, v.y, v.n) }
	abs := func(a int64) int64 {
		if a < 0 {
			return -a
		}
		return a
	}
	betrag := func(v vek) int64 { return abs(v.x) + abs(v.y) }
	vars := map[string]vek{}
	for _, n := range []string{"va", "vb", "vc"} {
		v := vek{int64(rapid.IntRange(-9, 9).Draw(t, n+"x")), int64(rapid.IntRange(-9, 9).Draw(t, n+"y")), rapid.SampledFrom([]string{"", "a", "äö", "lang genug für den Heap"}).Draw(t, n+"n")}
		vars[n] = v
		lit := func(i int64) string {
			if i < 0 {
				return fmt.Sprintf("(%d)", i)
			}
			return fmt.Sprint(i)
		}
		fmt.Fprintf(&body, "Der Vek %s ist ein Vek mit %s und %s und \"%s\".\n", n, lit(v.x), lit(v.y), v.n)
	}
	var genV func(d int) (string, vek)
	genV = func(d int) (string, vek) {
		if d == 0 || rapid.IntRange(0, 3).Draw(t, "leaf") == 0 {
			n := rapid.SampledFrom([]string{"va", "vb", "vc"}).Draw(t, "var")
			return n, vars[n]
		}
		switch rapid.IntRange(0, 3).Draw(t, "vop") {
		case 0:
			a, av := genV(d - 1)
			b, bv := genV(d - 1)
			feats["overload:plus"]++
			return "(" + a + " plus " + b + ")", vek{av.x + bv.x, av.y + bv.y, av.n + bv.n}
		case 1:
			a, av := genV(d - 1)
			b, bv := genV(d - 1)
			feats["overload:minus"]++
			return "(" + a + " minus " + b + ")", vek{av.x - bv.x, av.y - bv.y, av.n}
		case 2:
			a, av := genV(d - 1)
			k := int64(rapid.IntRange(-3, 4).Draw(t, "k"))
			ks := fmt.Sprint(k)
			if k < 0 {
				ks = fmt.Sprintf("(%d)", k)
			}
			feats["overload:mal"]++
			return "(" + a + " mal " + ks + ")", vek{av.x * k, av.y * k, av.n}
		default:
			a, av := genV(d - 1)
			feats["overload:unäres minus"]++
			return "(-" + a + ")", vek{-av.x, -av.y, av.n}
		}
	}
	for k := rapid.IntRange(2, 5).Draw(t, "overload-uses"); k > 0; k-- {
		e, v := genV(3)
		switch rapid.IntRange(0, 3).Draw(t, "observe") {
		case 0:
			fmt.Fprintf(&body, "Schreibe (%s als Text) auf eine Zeile.\n", e)
			out.WriteString(str(v) + "\n")
			feats["overload:als"]++
		case 1:
			fmt.Fprintf(&body, "Schreibe (der Betrag von %s) auf eine Zeile.\n", e)
			fmt.Fprintf(&out, "%d\n", betrag(v))
			feats["overload:Betrag"]++
		case 2:
			e2, v2 := genV(2)
			fmt.Fprintf(&body, "Schreibe (%s kleiner als %s ist) auf eine Zeile.\n", e, e2)
			if betrag(v) < betrag(v2) {
				out.WriteString("wahr\n")
			} else {
				out.WriteString("falsch\n")
			}
			feats["overload:kleiner als"]++
		default: // the result of an overloaded operator is a value like any other: store it, change the operands, show it
			fmt.Fprintf(&body, "Der Vek ergebnis%d ist %s.\nSpeichere 1000 in x von va.\nSchreibe (ergebnis%d als Text) auf eine Zeile.\n", k, e, k)
			out.WriteString(str(v) + "\n")
			va := vars["va"]
			va.x = 1000
			vars["va"] = va
			feats["overload:result-stored"]++
		}
	}

	// ------------------------------------------------ recursion
	for k := rapid.IntRange(2, 5).Draw(t, "recursion-uses"); k > 0; k-- {
		switch rapid.IntRange(0, 5).Draw(t, "rec") {
		case 0:
			n := int64(rapid.IntRange(0, 15).Draw(t, "n"))
			f := int64(1)
			for i := int64(2); i <= n; i++ {
				f *= i
			}
			fmt.Fprintf(&body, "Schreibe (die Fakultät von %d) auf eine Zeile.\n", n)
			fmt.Fprintf(&out, "%d\n", f)
			feats["recursion:direct"]++
		case 1:
			n := rapid.IntRange(0, 18).Draw(t, "n")
			a, b := int64(0), int64(1)
			for i := 0; i < n; i++ {
				a, b = b, a+b
			}
			fmt.Fprintf(&body, "Schreibe (die Fibonaccizahl %d) auf eine Zeile.\n", n)
			fmt.Fprintf(&out, "%d\n", a)
			feats["recursion:two-calls"]++
		case 2:
			rs := []rune(rapid.SampledFrom([]string{"", "a", "abc", "äö€x", "ein längerer Text"}).Draw(t, "txt"))
			rev := make([]rune, len(rs))
			for i, r := range rs {
				rev[len(rs)-1-i] = r
			}
			fmt.Fprintf(&body, "Schreibe (\"%s\" rückwärts) auf eine Zeile.\n", string(rs))
			out.WriteString(string(rev) + "\n")
			feats["recursion:text-temporaries"]++
		case 3:
			n := rapid.IntRange(0, 9).Draw(t, "n")
			fmt.Fprintf(&body, "Schreibe (%d gerade ist) auf eine Zeile.\n", n)
			if n%2 == 0 {
				out.WriteString("wahr\n")
			} else {
				out.WriteString("falsch\n")
			}
			feats["recursion:mutual-forward-declared"]++
		case 4:
			n := rapid.IntRange(0, 6).Draw(t, "n")
			fmt.Fprintf(&body, "Die Zahlen Liste gesammelt%d ist eine Liste, die aus 100 besteht.\nsammle bis %d in gesammelt%d.\nSchreibe gesammelt%d auf eine Zeile.\n", k, n, k, k)
			parts := []string{"100"}
			for i := n; i >= 1; i-- {
				parts = append(parts, fmt.Sprint(i))
			}
			out.WriteString(strings.Join(parts, ", ") + "\n")
			feats["recursion:referenz-accumulator"]++
		default:
			n := rapid.IntRange(0, 7).Draw(t, "n")
			var l []string
			var s int64
			for i := 1; i <= n; i++ {
				l = append(l, fmt.Sprint(i*i))
				s += int64(i * i)
			}
			lit := "eine leere Zahlen Liste"
			if n > 0 {
				lit = "eine Liste, die aus " + strings.Join(l, ", ") + " besteht"
			}
			fmt.Fprintf(&body, "Die Zahlen Liste quadrate%d ist %s.\nSchreibe (die rekursive Summe von quadrate%d) auf eine Zeile.\nSchreibe (die Länge von quadrate%d) auf eine Zeile.\n", k, lit, k, k)
			fmt.Fprintf(&out, "%d\n%d\n", s, n)
			feats["recursion:list-slices"]++
		}
	}

	decls := `Binde "Duden/Ausgabe" ein.

Wir nennen die Kombination aus
	der Zahl x mit Standardwert 0,
	der Zahl y mit Standardwert 0,
	dem Text name mit Standardwert "",
einen Vek, und erstellen sie so:
	"ein Vek mit <x> und <y> und <name>"

Die Funktion vek_plus mit den Parametern a und b vom Typ Vek und Vek, gibt einen Vek zurück, macht:
	Gib ein Vek mit (x von a plus x von b) und (y von a plus y von b) und (name von a verkettet mit name von b) zurück.
Und überlädt den "plus" Operator.

Die Funktion vek_minus mit den Parametern a und b vom Typ Vek und Vek, gibt einen Vek zurück, macht:
	Gib ein Vek mit (x von a minus x von b) und (y von a minus y von b) und (name von a) zurück.
Und überlädt den "minus" Operator.

Die Funktion vek_mal mit den Parametern a und k vom Typ Vek und Zahl, gibt einen Vek zurück, macht:
	Gib ein Vek mit (x von a mal k) und (y von a mal k) und (name von a) zurück.
Und überlädt den "mal" Operator.

Die Funktion vek_negiert mit dem Parameter a vom Typ Vek, gibt einen Vek zurück, macht:
	Gib ein Vek mit (0 minus x von a) und (0 minus y von a) und (name von a) zurück.
Und überlädt den "unäres minus" Operator.

Die Funktion vek_betrag mit dem Parameter a vom Typ Vek, gibt eine Zahl zurück, macht:
	Gib (der Betrag von (x von a)) plus (der Betrag von (y von a)) zurück.
Und überlädt den "Betrag" Operator.

Die Funktion vek_kleiner mit den Parametern a und b vom Typ Vek und Vek, gibt einen Wahrheitswert zurück, macht:
	Gib (der Betrag von a) kleiner als (der Betrag von b) ist zurück.
Und überlädt den "kleiner als" Operator.

Die Funktion vek_text mit dem Parameter a vom Typ Vek, gibt einen Text zurück, macht:
	Gib "(" verkettet mit ((x von a) als Text) verkettet mit "|" verkettet mit ((y von a) als Text) verkettet mit "|" verkettet mit (name von a) verkettet mit ")" zurück.
Und überlädt den "als" Operator.

Die Funktion fakultaet mit dem Parameter n vom Typ Zahl, gibt eine Zahl zurück, macht:
	Wenn n kleiner als 2 ist, gib 1 zurück.
	Gib n mal (die Fakultät von (n minus 1)) zurück.
Und kann so benutzt werden:
	"die Fakultät von <n>"

Die Funktion fibonacci mit dem Parameter n vom Typ Zahl, gibt eine Zahl zurück, macht:
	Wenn n kleiner als 2 ist, gib n zurück.
	Gib (die Fibonaccizahl (n minus 1)) plus (die Fibonaccizahl (n minus 2)) zurück.
Und kann so benutzt werden:
	"die Fibonaccizahl <n>"

Die Funktion rueckwaerts mit dem Parameter t vom Typ Text, gibt einen Text zurück, macht:
	Wenn die Länge von t kleiner als 2 ist, gib t zurück.
	Gib ((t ab dem 2. Element) rückwärts) verkettet mit (t an der Stelle 1) zurück.
Und kann so benutzt werden:
	"<t> rückwärts"

Die Funktion ist_ungerade mit dem Parameter n vom Typ Zahl, gibt einen Wahrheitswert zurück, wird später definiert
Und kann so benutzt werden:
	"<n> ungerade ist"

Die Funktion ist_gerade mit dem Parameter n vom Typ Zahl, gibt einen Wahrheitswert zurück, macht:
	Wenn n gleich 0 ist, gib wahr zurück.
	Gib ((n minus 1) ungerade ist) zurück.
Und kann so benutzt werden:
	"<n> gerade ist"

Die Funktion ist_ungerade macht:
	Wenn n gleich 0 ist, gib falsch zurück.
	Gib ((n minus 1) gerade ist) zurück.

Die Funktion sammle mit den Parametern n und ziel vom Typ Zahl und Zahlen Listen Referenz, gibt nichts zurück, macht:
	Wenn n kleiner als 1 ist, verlasse die Funktion.
	Speichere ziel verkettet mit n in ziel.
	sammle bis (n minus 1) in ziel.
Und kann so benutzt werden:
	"sammle bis <n> in <ziel>"

Die Funktion rekursive_summe mit dem Parameter l vom Typ Zahlen Liste, gibt eine Zahl zurück, macht:
	Wenn die Länge von l gleich 0 ist, gib 0 zurück.
	Wenn die Länge von l gleich 1 ist, gib (l an der Stelle 1) zurück.
	Gib (l an der Stelle 1) plus (die rekursive Summe von (l ab dem 2. Element)) zurück.
Und kann so benutzt werden:
	"die rekursive Summe von <l>"

`
	main := body.String()
	if wrapMain {
		var ind strings.Builder
		for _, l := range strings.Split(strings.TrimRight(main, "\n"), "\n") {
			ind.WriteString("\t" + l + "\n")
		}
		main = "Die Funktion hauptteil gibt nichts zurück, macht:\n" + ind.String() + "Und kann so benutzt werden:\n\t\"starte den hauptteil\"\n\nstarte den hauptteil.\n"
		feats["main-in-function"]++
	}
	return decls + main, out.String(), feats
}
