package gen

import (
	"fmt"

	"pgregory.net/rapid"
)

// GenerateAlias builds programs around one question: after a value has been copied / passed, does a
// mutation through one holder show up in another one? (C08, and the -O 2 copy elision of C11/C05.)
// The programs are ordinary gen programs, so the reference interpreter gives the expected output.
func GenerateAlias(t *rapid.T) (*Program, map[string]int) {
	g := &G{t: t, cfg: Config{MaxDepth: 1, Structs: true, AllowRTE: false}, prog: &Program{}, Feat: map[string]int{}}
	g.push()
	// the value kind under test
	kombi := &Struct{Name: "Kiste", Fields: []Field{{Name: "nummer", T: TZahl}, {Name: "worte", T: ListOf(TText)}, {Name: "titel", T: TText}}}
	g.prog.Structs = []*Struct{kombi}
	T := rapid.SampledFrom([]*Type{TText, ListOf(TZahl), ListOf(TText), kombi.Type(), ListOf(kombi.Type())}).Draw(t, "value-kind")
	g.feat("kind:" + eqClass(T))

	// a mutation of an lvalue of type T (several forms per kind)
	mutate := func(root string, rt *Type, label string) []Stmt {
		lv := LValue{Root: root, RT: rt, T: rt}
		ref := &Ref{Name: root, T: rt}
		form := g.intn(label, 0, 3)
		g.feat(fmt.Sprintf("mutation:%s:%d", eqClass(rt), form))
		switch rt.K {
		case KText:
			switch form {
			case 0:
				return []Stmt{&Assign{Target: lv, X: &Bin{Op: "concat", L: ref, R: &Lit{T: TText, S: "!"}, T: TText}}}
			case 1:
				return []Stmt{guardStmt(LValue{Root: root, RT: rt, Path: []Step{{Index: &Lit{T: TZahl, I: 1}}}, T: TChar}, &Assign{Target: LValue{Root: root, RT: rt, Path: []Step{{Index: &Lit{T: TZahl, I: 1}}}, T: TChar}, X: &Lit{T: TChar, C: pick(t, []rune{'X', 'ß', '€'}, "mc")}})}
			case 2:
				return []Stmt{&Assign{Target: lv, X: &Lit{T: TText, S: "neu"}}}
			default:
				return []Stmt{&Assign{Target: lv, X: &SliceFrom{X: ref, N: &Lit{T: TZahl, I: 2}}}}
			}
		case KList:
			el := g.lit(rt.Elem)
			switch form {
			case 0:
				return []Stmt{&Assign{Target: lv, X: &Bin{Op: "concat", L: ref, R: el, T: rt}}}
			case 1:
				tl := LValue{Root: root, RT: rt, Path: []Step{{Index: &Lit{T: TZahl, I: 1}}}, T: rt.Elem}
				return []Stmt{guardStmt(tl, &Assign{Target: tl, X: el})}
			case 2:
				return []Stmt{&Assign{Target: lv, X: &EmptyList{T: rt}}}
			default:
				if rt.Elem.K == KStruct {
					tl := LValue{Root: root, RT: rt, Path: []Step{{Index: &Lit{T: TZahl, I: 1}}, {Field: "titel"}}, T: TText}
					return []Stmt{guardStmt(tl, &Assign{Target: tl, X: &Lit{T: TText, S: "geändert"}})}
				}
				return []Stmt{&Assign{Target: lv, X: &Bin{Op: "concat", L: el, R: ref, T: rt}}}
			}
		default: // Kombination
			switch form {
			case 0:
				return []Stmt{&Assign{Target: LValue{Root: root, RT: rt, Path: []Step{{Field: "titel"}}, T: TText}, X: &Lit{T: TText, S: "geändert"}}}
			case 1:
				return []Stmt{&Compound{Op: "erhoehe", Target: LValue{Root: root, RT: rt, Path: []Step{{Field: "nummer"}}, T: TZahl}, X: &Lit{T: TZahl, I: 10}}}
			case 2:
				fl := LValue{Root: root, RT: rt, Path: []Step{{Field: "worte"}}, T: ListOf(TText)}
				return []Stmt{&Assign{Target: fl, X: &Bin{Op: "concat", L: &FieldGet{X: ref, Name: "worte", T: ListOf(TText)}, R: &Lit{T: TText, S: "mehr"}, T: ListOf(TText)}}}
			default:
				return []Stmt{&Assign{Target: lv, X: g.lit(rt)}}
			}
		}
	}

	// helper functions
	mut := &Func{Name: "aendere", Params: []Param{{Name: "ziel", T: T, Ref: true}}, Words: []string{"aendere", ""}}
	mut.Body = mutate("ziel", T, "mut-form")
	mutRet := &Func{Name: "aendere_und_zaehle", Params: []Param{{Name: "ziel", T: T, Ref: true}}, Ret: TZahl, Words: []string{"zaehleaenderung", ""}}
	mutRet.Body = append(mutate("ziel", T, "mutret-form"), &Return{X: &Lit{T: TZahl, I: 7}})
	ident := &Func{Name: "gleiche_zahl", Params: []Param{{Name: "zahl", T: TZahl}}, Ret: TZahl, Words: []string{"dieselbe", ""}}
	ident.Body = []Stmt{&Return{X: &Ref{Name: "zahl", T: TZahl}}}
	show := &Func{Name: "zeige_wert", Params: []Param{{Name: "wert", T: T}}, Words: []string{"zeige", ""}}
	show.Body = g.printVar(varInfo{Name: "wert", T: T})
	if len(show.Body) == 0 {
		show.Body = []Stmt{&Print{X: &Lit{T: TText, S: "wert"}}}
	}
	// a function that mutates its OWN by-value parameter (the caller must not see it)
	own := &Func{Name: "aendere_kopie", Params: []Param{{Name: "kopie", T: T}}, Words: []string{"kopieaendern", ""}}
	own.Body = append(mutate("kopie", T, "own-form"), g.printVar(varInfo{Name: "kopie", T: T})...)
	g.prog.Funcs = []*Func{mut, mutRet, ident, show, own}

	// optional global that the victim touches
	useGlobal := g.chance("global", 30)
	if useGlobal {
		g.prog.Prelude = append(g.prog.Prelude, &VarDecl{Name: "global", T: T, Init: g.lit(T)})
		g.feat("global-touched-by-callee")
	}

	// the victim: takes the value by value (and maybe the same variable by Referenz as second parameter)
	withRef := g.chance("val+ref", 35)
	victim := &Func{Name: "opfer", Params: []Param{{Name: "p", T: T}}, Words: []string{"pruefe", ""}}
	if withRef {
		victim.Params = append(victim.Params, Param{Name: "q", T: T, Ref: true})
		victim.Words = []string{"pruefe", "gegen", ""}
	}
	if g.chance("victim-returns", 40) {
		victim.Ret = TZahl
	}
	pRef := &Ref{Name: "p", T: T}
	body := g.printVar(varInfo{Name: "p", T: T})
	action := g.intn("action", 0, 8)
	g.feat(fmt.Sprintf("action:%d", action))
	switch action {
	case 0: // direct Referenz call on the by-value parameter
		body = append(body, &CallStmt{C: &Call{F: mut, Args: []Expr{pRef}}})
	case 1: // the mutating Referenz call nested in another call's argument
		body = append(body, &Print{X: &Call{F: ident, Args: []Expr{&Call{F: mutRet, Args: []Expr{pRef}}}}})
	case 2: // direct mutation of the parameter
		body = append(body, mutate("p", T, "direct-form")...)
	case 3: // pass on by value to a function that mutates its copy
		body = append(body, &CallStmt{C: &Call{F: own, Args: []Expr{pRef}}})
	case 4: // no mutation at all (the parameter is constant): only reads
		body = append(body, &CallStmt{C: &Call{F: show, Args: []Expr{pRef}}})
	case 5: // mutate through the Referenz parameter / the global while p must keep its value
		if withRef {
			body = append(body, mutate("q", T, "viaq-form")...)
		} else if useGlobal {
			body = append(body, mutate("global", T, "viaglobal-form")...)
		} else {
			body = append(body, &CallStmt{C: &Call{F: show, Args: []Expr{pRef}}})
		}
	case 6: // copy the parameter into a local, mutate the local
		body = append(body, &VarDecl{Name: "lokal", T: T, Init: pRef})
		body = append(body, mutate("lokal", T, "local-form")...)
		body = append(body, g.printVar(varInfo{Name: "lokal", T: T})...)
	case 7: // a loop over the parameter that mutates it meanwhile (for lists/Text)
		if T.K == KList || T.K == KText {
			et := TChar
			if T.K == KList {
				et = T.Elem
			}
			inner := append(g.printVar(varInfo{Name: "element", T: et}), mutate("p", T, "loop-form")...)
			body = append(body, &ForEach{Var: "element", ElemT: et, Coll: pRef, Body: append(inner, &If{Cond: &Lit{T: TBool, B: g.chance("loop-break", 50)}, Then: []Stmt{&Break{}}})})
		} else {
			body = append(body, mutate("p", T, "direct2-form")...)
		}
	default: // element / field of the parameter passed by Referenz
		switch T.K {
		case KStruct:
			body = append(body, &Compound{Op: "erhoehe", Target: LValue{Root: "p", RT: T, Path: []Step{{Field: "nummer"}}, T: TZahl}, X: &Lit{T: TZahl, I: 1}})
		default:
			body = append(body, &CallStmt{C: &Call{F: mut, Args: []Expr{pRef}}})
		}
	}
	// early exit of the callee while everything is live
	if g.chance("early-exit", 60) {
		var r Stmt = &Return{}
		if victim.Ret != nil {
			r = &Return{X: &Lit{T: TZahl, I: 1}}
		}
		body = append(body, &If{Cond: &Lit{T: TBool, B: g.chance("early-taken", 70)}, Then: []Stmt{r}})
		g.feat("early-return")
	}
	body = append(body, g.printVar(varInfo{Name: "p", T: T})...)
	if withRef {
		body = append(body, g.printVar(varInfo{Name: "q", T: T})...)
	}
	if victim.Ret != nil {
		body = append(body, &Return{X: &Lit{T: TZahl, I: 2}})
	}
	victim.Body = body
	g.prog.Funcs = append(g.prog.Funcs, victim)

	// main: holders created by different copy-introducing constructs
	main := []Stmt{&VarDecl{Name: "original", T: T, Init: g.lit(T)}}
	main = append(main, &VarDecl{Name: "kopie", T: T, Init: &Ref{Name: "original", T: T}})
	holder := g.intn("copy-construct", 0, 5)
	g.feat(fmt.Sprintf("copy-construct:%d", holder))
	switch holder {
	case 1: // copy by assignment
		main = append(main, &VarDecl{Name: "zweite", T: T, Init: g.lit(T)}, &Assign{Target: LValue{Root: "zweite", RT: T, T: T}, X: &Ref{Name: "original", T: T}})
		main = append(main, mutate("zweite", T, "m1")...)
		main = append(main, g.printVar(varInfo{Name: "zweite", T: T})...)
	case 2: // stored into a list / taken out of a list
		if T.K != KList {
			main = append(main, &VarDecl{Name: "liste", T: ListOf(T), Init: &ListLit{T: ListOf(T), Elems: []Expr{&Ref{Name: "original", T: T}, &Ref{Name: "original", T: T}}}})
			tl := LValue{Root: "liste", RT: ListOf(T), Path: []Step{{Index: &Lit{T: TZahl, I: 1}}}, T: T}
			switch T.K {
			case KText:
				main = append(main, &Assign{Target: tl, X: &Lit{T: TText, S: "ersetzt"}})
			default:
				main = append(main, &Assign{Target: LValue{Root: "liste", RT: ListOf(T), Path: []Step{{Index: &Lit{T: TZahl, I: 1}}, {Field: "titel"}}, T: TText}, X: &Lit{T: TText, S: "ersetzt"}})
			}
			main = append(main, g.printVar(varInfo{Name: "liste", T: ListOf(T)})...)
		}
	case 3: // falls result
		main = append(main, &VarDecl{Name: "gewaehlt", T: T, Init: &Falls{Then: &Ref{Name: "original", T: T}, Cond: &Lit{T: TBool, B: g.chance("falls-cond", 50)}, Else: &Ref{Name: "kopie", T: T}}})
		main = append(main, mutate("gewaehlt", T, "m3")...)
		main = append(main, g.printVar(varInfo{Name: "gewaehlt", T: T})...)
	case 4: // mutate the copy first
		main = append(main, mutate("kopie", T, "m4")...)
	}
	call := &Call{F: victim, Args: []Expr{&Ref{Name: "original", T: T}}}
	if withRef {
		other := "original"
		if g.chance("ref-other-var", 30) {
			other = "kopie"
		} else {
			g.feat("call:val+ref:sameVar")
		}
		call.Args = append(call.Args, &Ref{Name: other, T: T})
	}
	if useGlobal && g.chance("pass-global", 50) {
		call.Args[0] = &Ref{Name: "global", T: T}
		g.feat("global-passed-as-value-argument")
	}
	if victim.Ret != nil {
		main = append(main, &Print{X: call})
	} else {
		main = append(main, &CallStmt{C: call})
	}
	main = append(main, g.printVar(varInfo{Name: "original", T: T})...)
	main = append(main, g.printVar(varInfo{Name: "kopie", T: T})...)
	if useGlobal {
		main = append(main, g.printVar(varInfo{Name: "global", T: T})...)
	}
	// a second call: repeated use of the same callee with another holder
	if g.chance("second-call", 40) {
		c2 := &Call{F: victim, Args: []Expr{&Ref{Name: "kopie", T: T}}}
		if withRef {
			c2.Args = append(c2.Args, &Ref{Name: "kopie", T: T})
		}
		if victim.Ret != nil {
			main = append(main, &Print{X: c2})
		} else {
			main = append(main, &CallStmt{C: c2})
		}
		main = append(main, g.printVar(varInfo{Name: "original", T: T})...)
		main = append(main, g.printVar(varInfo{Name: "kopie", T: T})...)
	}
	g.prog.Main = main
	g.pop()
	return g.prog, g.Feat
}
