package gen

// Slot is one expression position of a program: what kind of position it is, which type it requires,
// and accessors to replace the expression (used for fault injection).
type Slot struct {
	Kind      string // init | assign-rhs | cond-wenn | cond-wenn-aber | cond-solange | cond-mache-solange | for-from | for-to | for-step | repeat-count | foreach-coll | index | call-arg | return | print | operand:<op> | list-elem | field-arg | falls-cond | falls-branch | cast-operand | slice-bound | compound-operand
	Want      *Type  // type the position requires (nil: any)
	Get       func() Expr
	Set       func(Expr)
	LoopDepth int
	InFunc    *Func
	Depth     int // block nesting depth
	RefParam  bool
}

// ListSite is one statement list (block) of a program, for inserting statements.
type ListSite struct {
	Kind      string // main | func-body | then | wenn-aber | sonst | solange | mache-solange | wiederhole | fuer | fuer-jeden | block
	List      *[]Stmt
	LoopDepth int
	InFunc    *Func
	Depth     int
}

type walker struct {
	slots []Slot
	lists []ListSite
	loop  int
	fn    *Func
	depth int
}

func (w *walker) slot(kind string, want *Type, get func() Expr, set func(Expr)) {
	w.slots = append(w.slots, Slot{Kind: kind, Want: want, Get: get, Set: set, LoopDepth: w.loop, InFunc: w.fn, Depth: w.depth})
	w.expr(get())
}

func (w *walker) expr(e Expr) {
	switch e := e.(type) {
	case *ListLit:
		for i := range e.Elems {
			i := i
			kind := "list-elem"
			if len(e.Elems) < 2 {
				kind = "list-single-elem" // a one-element literal takes its type from the element: no type fault possible here
			}
			w.slot(kind, e.T.Elem, func() Expr { return e.Elems[i] }, func(x Expr) { e.Elems[i] = x })
		}
	case *Repeat:
		w.slot("list-count", TZahl, func() Expr { return e.N }, func(x Expr) { e.N = x })
		w.slot("list-elem", e.T.Elem, func() Expr { return e.X }, func(x Expr) { e.X = x })
	case *Un:
		w.slot("operand:"+e.Op, e.X.Type(), func() Expr { return e.X }, func(x Expr) { e.X = x })
	case *Bin:
		if e.Op == "index" {
			w.slot("operand:index-collection", e.L.Type(), func() Expr { return e.L }, func(x Expr) { e.L = x })
			w.slot("index", TZahl, func() Expr { return e.R }, func(x Expr) { e.R = x })
			return
		}
		w.slot("operand:"+e.Op, e.L.Type(), func() Expr { return e.L }, func(x Expr) { e.L = x })
		w.slot("operand:"+e.Op, e.R.Type(), func() Expr { return e.R }, func(x Expr) { e.R = x })
	case *Between:
		w.slot("operand:zwischen", e.X.Type(), func() Expr { return e.X }, func(x Expr) { e.X = x })
		w.slot("operand:zwischen", e.A.Type(), func() Expr { return e.A }, func(x Expr) { e.A = x })
		w.slot("operand:zwischen", e.B.Type(), func() Expr { return e.B }, func(x Expr) { e.B = x })
	case *Falls:
		w.slot("falls-branch", e.Then.Type(), func() Expr { return e.Then }, func(x Expr) { e.Then = x })
		w.slot("falls-cond", TBool, func() Expr { return e.Cond }, func(x Expr) { e.Cond = x })
		w.slot("falls-branch", e.Else.Type(), func() Expr { return e.Else }, func(x Expr) { e.Else = x })
	case *Cast:
		w.slot("cast-operand", nil, func() Expr { return e.X }, func(x Expr) { e.X = x })
	case *Slice:
		w.slot("operand:slice-collection", e.X.Type(), func() Expr { return e.X }, func(x Expr) { e.X = x })
		w.slot("slice-bound", TZahl, func() Expr { return e.From }, func(x Expr) { e.From = x })
		w.slot("slice-bound", TZahl, func() Expr { return e.To }, func(x Expr) { e.To = x })
	case *SliceTo:
		w.slot("operand:slice-collection", e.X.Type(), func() Expr { return e.X }, func(x Expr) { e.X = x })
		w.slot("slice-bound", TZahl, func() Expr { return e.N }, func(x Expr) { e.N = x })
	case *SliceFrom:
		w.slot("operand:slice-collection", e.X.Type(), func() Expr { return e.X }, func(x Expr) { e.X = x })
		w.slot("slice-bound", TZahl, func() Expr { return e.N }, func(x Expr) { e.N = x })
	case *FieldGet:
		w.slot("operand:von", e.X.Type(), func() Expr { return e.X }, func(x Expr) { e.X = x })
	case *Call:
		w.call(e)
	case *StructLit:
		for i := range e.Args {
			i := i
			w.slot("field-arg", e.S.Fields[i].T, func() Expr { return e.Args[i] }, func(x Expr) { e.Args[i] = x })
		}
	}
}

func (w *walker) call(c *Call) {
	for i := range c.Args {
		i := i
		n := len(w.slots)
		w.slot("call-arg", c.F.Params[i].T, func() Expr { return c.Args[i] }, func(x Expr) { c.Args[i] = x })
		w.slots[n].RefParam = c.F.Params[i].Ref
	}
}

func (w *walker) list(kind string, l *[]Stmt) {
	w.depth++
	w.lists = append(w.lists, ListSite{Kind: kind, List: l, LoopDepth: w.loop, InFunc: w.fn, Depth: w.depth})
	for _, s := range *l {
		w.stmt(s)
	}
	w.depth--
}

func (w *walker) lvalue(l *LValue) {
	for i := range l.Path {
		if l.Path[i].Index != nil {
			i := i
			w.slot("index", TZahl, func() Expr { return l.Path[i].Index }, func(x Expr) { l.Path[i].Index = x })
		}
	}
}

func (w *walker) stmt(s Stmt) {
	switch s := s.(type) {
	case *VarDecl:
		if _, isRep := s.Init.(*Repeat); isRep {
			w.expr(s.Init)
			return
		}
		w.slot("init", s.T, func() Expr { return s.Init }, func(x Expr) { s.Init = x })
	case *Assign:
		w.lvalue(&s.Target)
		w.slot("assign-rhs", s.Target.T, func() Expr { return s.X }, func(x Expr) { s.X = x })
	case *Compound:
		if s.X != nil {
			w.slot("compound-operand", s.Target.T, func() Expr { return s.X }, func(x Expr) { s.X = x })
		}
	case *If:
		w.slot("cond-wenn", TBool, func() Expr { return s.Cond }, func(x Expr) { s.Cond = x })
		w.list("then", &s.Then)
		for i := range s.Elifs {
			i := i
			w.slot("cond-wenn-aber", TBool, func() Expr { return s.Elifs[i].Cond }, func(x Expr) { s.Elifs[i].Cond = x })
			w.list("wenn-aber", &s.Elifs[i].Body)
		}
		if s.Else != nil {
			w.list("sonst", &s.Else)
		}
	case *While:
		w.slot("cond-solange", TBool, func() Expr { return s.Cond }, func(x Expr) { s.Cond = x })
		w.loop++
		w.list("solange", &s.Body)
		w.loop--
	case *DoWhile:
		w.loop++
		w.list("mache-solange", &s.Body)
		w.loop--
		w.slot("cond-mache-solange", TBool, func() Expr { return s.Cond }, func(x Expr) { s.Cond = x })
	case *RepeatN:
		w.slot("repeat-count", TZahl, func() Expr { return s.N }, func(x Expr) { s.N = x })
		w.loop++
		w.list("wiederhole", &s.Body)
		w.loop--
	case *ForCount:
		w.slot("for-from", s.T, func() Expr { return s.From }, func(x Expr) { s.From = x })
		w.slot("for-to", s.T, func() Expr { return s.To }, func(x Expr) { s.To = x })
		if s.Step != nil {
			w.slot("for-step", s.T, func() Expr { return s.Step }, func(x Expr) { s.Step = x })
		}
		w.loop++
		w.list("fuer", &s.Body)
		w.loop--
	case *ForEach:
		w.slot("foreach-coll", s.Coll.Type(), func() Expr { return s.Coll }, func(x Expr) { s.Coll = x })
		w.loop++
		w.list("fuer-jeden", &s.Body)
		w.loop--
	case *Return:
		if s.X != nil {
			w.slot("return", w.fn.Ret, func() Expr { return s.X }, func(x Expr) { s.X = x })
		}
	case *Print:
		w.slot("print", nil, func() Expr { return s.X }, func(x Expr) { s.X = x })
	case *CallStmt:
		w.call(s.C)
	case *Block:
		w.list("block", &s.Body)
	}
}

// Walk collects every expression slot and statement list of the program.
func Walk(p *Program) ([]Slot, []ListSite) {
	w := &walker{}
	for _, f := range p.Funcs {
		w.fn = f
		w.list("func-body", &f.Body)
	}
	w.fn = nil
	w.list("main", &p.Main)
	return w.slots, w.lists
}
