package gen

import (
	"fmt"
	"strconv"
	"strings"
)

// precedence levels of src/parser/expressions.go (snapshot, taken as specification), higher binds tighter
const (
	pFalls = iota + 1
	pXor
	pOr
	pAnd
	pLor
	pLxor
	pLand
	pEq
	pCmp
	pShift
	pTerm
	pFactor
	pUnary
	pNeg
	pPow
	pSlice
	pIndex
	pField
	pCast
	pPrimary
)

var binInfo = map[string]struct {
	prec int
	fmt  string
}{
	"oder": {pOr, "%s oder %s"}, "und": {pAnd, "%s und %s"},
	"lor": {pLor, "%s logisch oder %s"}, "lxor": {pLxor, "%s logisch kontra %s"}, "land": {pLand, "%s logisch und %s"},
	"gleich": {pEq, "%s gleich %s ist"}, "ungleich": {pEq, "%s ungleich %s ist"},
	"kleiner": {pCmp, "%s kleiner als %s ist"}, "groesser": {pCmp, "%s größer als %s ist"},
	"kleinergleich": {pCmp, "%s kleiner als, oder %s ist"}, "groessergleich": {pCmp, "%s größer als, oder %s ist"},
	"shl": {pShift, "%s um %s Bit nach Links verschoben"}, "shr": {pShift, "%s um %s Bit nach Rechts verschoben"},
	"plus": {pTerm, "%s plus %s"}, "minus": {pTerm, "%s minus %s"}, "concat": {pTerm, "%s verkettet mit %s"},
	"mal": {pFactor, "%s mal %s"}, "durch": {pFactor, "%s durch %s"}, "modulo": {pFactor, "%s modulo %s"},
	"hoch":  {pPow, "%s hoch %s"},
	"index": {pIndex, "%s an der Stelle %s"},
}

// Printer options
type Printer struct {
	FullParens bool // parenthesise every non-atomic operand (metamorphic variant; must not change behaviour)
	Public     bool // print Kombinationen (and their fields) and functions as public declarations of a module
	// print a plain variable as '(v)' in output statements: handing a parameter to an imported function
	// (Duden/Ausgabe) makes the -O 2 annotator give up on it, a parenthesised operand does not
	ParenPrint bool
}

func FloatSrc(f float64) (string, bool) {
	neg := f < 0
	if neg {
		f = -f
	}
	s := strconv.FormatFloat(f, 'f', -1, 64)
	if !strings.Contains(s, ".") {
		s += ".0"
	}
	if len(s) > 24 {
		return "", false
	}
	back, err := strconv.ParseFloat(s, 64)
	if err != nil || back != f {
		return "", false
	}
	s = strings.Replace(s, ".", ",", 1)
	if neg {
		s = "-" + s
	}
	return s, true
}

func escape(s string, quote rune) string {
	var sb strings.Builder
	for _, r := range s {
		switch r {
		case '\n':
			sb.WriteString(`\n`)
		case '\t':
			sb.WriteString(`\t`)
		case '\r':
			sb.WriteString(`\r`)
		case '\a':
			sb.WriteString(`\a`)
		case '\b':
			sb.WriteString(`\b`)
		case '\\':
			sb.WriteString(`\\`)
		case quote:
			sb.WriteString(`\` + string(quote))
		default:
			sb.WriteRune(r)
		}
	}
	return sb.String()
}

// expr returns the source text and its precedence level
func (p *Printer) expr(e Expr) (string, int) {
	switch e := e.(type) {
	case *Lit:
		switch e.T.K {
		case KZahl:
			if e.I < 0 {
				return strconv.FormatInt(e.I, 10), pNeg
			}
			return strconv.FormatInt(e.I, 10), pPrimary
		case KKomma:
			s, ok := FloatSrc(e.F)
			if !ok {
				panic(fmt.Sprintf("float literal %v not printable", e.F))
			}
			if e.F < 0 || (e.F == 0 && strings.HasPrefix(s, "-")) {
				return s, pNeg
			}
			return s, pPrimary
		case KByte: // there is no Byte literal: conversion of a Zahl literal
			return fmt.Sprintf("%d als Byte", e.I), pCast
		case KBool:
			if e.B {
				return "wahr", pPrimary
			}
			return "falsch", pPrimary
		case KChar:
			return "'" + escape(string(e.C), '\'') + "'", pPrimary
		case KText:
			return `"` + escape(e.S, '"') + `"`, pPrimary
		}
	case *ListLit:
		parts := make([]string, len(e.Elems))
		for i, x := range e.Elems {
			parts[i] = p.operand(x, pPrimary) // list elements: atomic or parenthesised (commas!)
		}
		return "eine Liste, die aus " + strings.Join(parts, ", ") + " besteht", pUnary - 1
	case *EmptyList:
		return "eine leere " + e.T.Src(), pUnary - 1
	case *Repeat:
		return p.operand(e.N, pPrimary) + " Mal " + p.operand(e.X, pPrimary), 0
	case *Ref:
		return e.Name, pPrimary
	case *LRef:
		if len(e.L.Path) == 0 {
			return e.L.Root, pPrimary
		}
		return p.lvalue(e.L), pUnary - 1
	case *DefaultOf:
		return "der Standardwert von " + e.T.Dative() + " " + e.T.SrcDeclined(), pUnary
	case *Un:
		switch e.Op {
		case "neg":
			return "-" + p.operand(e.X, pNeg), pNeg
		case "not":
			return "nicht " + p.operand(e.X, pUnary), pUnary
		case "lnot":
			return "logisch nicht " + p.operand(e.X, pUnary), pUnary
		case "abs":
			return "der Betrag von " + p.operand(e.X, pUnary), pUnary
		case "len":
			return "die Länge von " + p.operand(e.X, pUnary), pUnary
		}
	case *Bin:
		if e.Op == "xor" {
			return "entweder " + p.operand(e.L, pOr) + ", oder " + p.operand(e.R, pOr), pXor
		}
		bi, ok := binInfo[e.Op]
		if !ok {
			panic("unknown binary op " + e.Op)
		}
		l, r := bi.prec, bi.prec+1
		switch e.Op {
		case "hoch": // rhs is parsed by unary(), which swallows a following 'hoch' itself: keep it simple
			l, r = pPrimary, pPrimary
		case "shl", "shr":
			r = pTerm
		}
		return fmt.Sprintf(bi.fmt, p.operand(e.L, l), p.operand(e.R, r)), bi.prec
	case *Between:
		return p.operand(e.X, pCmp) + " zwischen " + p.operand(e.A, pShift) + " und " + p.operand(e.B, pShift) + " ist", pCmp
	case *Falls:
		return p.operand(e.Then, pXor) + ", falls " + p.operand(e.Cond, pXor) + ", ansonsten " + p.operand(e.Else, pXor), pFalls
	case *Cast:
		return p.operand(e.X, pPrimary) + " als " + e.T.Src(), pCast
	case *Slice:
		return p.operand(e.X, pSlice) + " im Bereich von " + p.operand(e.From, pPrimary) + " bis " + p.operand(e.To, pPrimary), pSlice
	case *SliceTo:
		return p.operand(e.X, pSlice) + " bis zum " + p.operand(e.N, pPrimary) + ". Element", pSlice
	case *SliceFrom:
		return p.operand(e.X, pSlice) + " ab dem " + p.operand(e.N, pPrimary) + ". Element", pSlice
	case *FieldGet:
		return e.Name + " von " + p.operand(e.X, pField), pField
	case *Call:
		return p.call(e), pUnary - 1 // always parenthesised when nested
	case *StructLit:
		parts := []string{"ein", e.S.Name}
		for i, f := range e.S.Fields {
			if i == 0 {
				parts = append(parts, "mit")
			} else {
				parts = append(parts, "und")
			}
			parts = append(parts, f.Name, p.operand(e.Args[i], pPrimary))
		}
		return strings.Join(parts, " "), pUnary - 1
	}
	panic(fmt.Sprintf("unprintable expression %T", e))
}

func (p *Printer) call(c *Call) string {
	var sb strings.Builder
	sb.WriteString(c.F.Words[0])
	for i, a := range c.Args {
		sb.WriteString(" ")
		x := p.operand(a, pPrimary) // arguments: single token or parenthesised
		if r, isRef := a.(*Ref); isRef && p.ParenPrint && !c.F.Params[i].Ref && !r.T.IsPrim() {
			x = "(" + x + ")" // by-value argument: '(v)' is no assignable, see ParenPrint
		}
		sb.WriteString(x)
		if w := c.F.Words[i+1]; w != "" {
			sb.WriteString(" " + w)
		}
	}
	return sb.String()
}

// operand prints e for a slot that requires at least precedence min
func (p *Printer) operand(e Expr, min int) string {
	s, prec := p.expr(e)
	atomic := prec == pPrimary
	if prec < min || (p.FullParens && !atomic) {
		return "(" + s + ")"
	}
	return s
}

// Expr prints an expression for a statement position (Falls and commas are parenthesised by the callers that need it)
func (p *Printer) Expr(e Expr) string {
	s, prec := p.expr(e)
	if prec <= pXor || (p.FullParens && prec != pPrimary) {
		return "(" + s + ")"
	}
	return s
}

func (p *Printer) lvalue(l LValue) string {
	switch len(l.Path) {
	case 0:
		return l.Root
	case 1:
		if l.Path[0].Field != "" {
			return l.Path[0].Field + " von " + l.Root
		}
		return l.Root + " an der Stelle " + p.operand(l.Path[0].Index, pPrimary)
	case 2:
		if l.Path[0].Field != "" && l.Path[1].Index != nil { // element of a list field
			return l.Path[0].Field + " von " + l.Root + " an der Stelle " + p.operand(l.Path[1].Index, pPrimary)
		}
		if l.Path[0].Index != nil && l.Path[1].Field != "" { // field of a list element
			return l.Path[1].Field + " von (" + l.Root + " an der Stelle " + p.operand(l.Path[0].Index, pPrimary) + ")"
		}
	}
	panic("unsupported lvalue path")
}

func ind(n int) string { return strings.Repeat("\t", n) }

func (p *Printer) stmts(sb *strings.Builder, ss []Stmt, d int) {
	if len(ss) == 0 {
		sb.WriteString(ind(d) + "Wenn falsch, verlasse_nie.\n") // never generated: blocks are non-empty by construction
	}
	for _, s := range ss {
		p.stmt(sb, s, d)
	}
}

func (p *Printer) stmt(sb *strings.Builder, s Stmt, d int) {
	in := ind(d)
	switch s := s.(type) {
	case *VarDecl:
		if r, ok := s.Init.(*Repeat); ok {
			fmt.Fprintf(sb, "%s%s %s %s ist %s Mal %s.\n", in, s.T.Article(), s.T.Src(), s.Name, p.operand(r.N, pPrimary), p.operand(r.X, pPrimary))
			return
		}
		art := s.T.Article()
		if s.BadArticle {
			art = map[string]string{"Die": "Der", "Der": "Die"}[art]
		}
		fmt.Fprintf(sb, "%s%s %s %s ist %s.\n", in, art, s.T.Src(), s.Name, p.Expr(s.Init))
	case *Raw:
		for _, l := range strings.Split(strings.TrimRight(s.Text, "\n"), "\n") {
			sb.WriteString(in + l + "\n")
		}
	case *Assign:
		fmt.Fprintf(sb, "%sSpeichere %s in %s.\n", in, p.Expr(s.X), p.lvalue(s.Target))
	case *Compound:
		switch s.Op {
		case "erhoehe":
			fmt.Fprintf(sb, "%sErhöhe %s um %s.\n", in, p.lvalue(s.Target), p.Expr(s.X))
		case "verringere":
			fmt.Fprintf(sb, "%sVerringere %s um %s.\n", in, p.lvalue(s.Target), p.Expr(s.X))
		case "vervielfache":
			fmt.Fprintf(sb, "%sVervielfache %s um %s.\n", in, p.lvalue(s.Target), p.Expr(s.X))
		case "teile":
			fmt.Fprintf(sb, "%sTeile %s durch %s.\n", in, p.lvalue(s.Target), p.Expr(s.X))
		case "negiere":
			fmt.Fprintf(sb, "%sNegiere %s.\n", in, p.lvalue(s.Target))
		}
	case *If:
		fmt.Fprintf(sb, "%sWenn %s, dann:\n", in, p.Expr(s.Cond))
		p.stmts(sb, s.Then, d+1)
		for _, e := range s.Elifs {
			fmt.Fprintf(sb, "%sWenn aber %s, dann:\n", in, p.Expr(e.Cond))
			p.stmts(sb, e.Body, d+1)
		}
		if s.Else != nil {
			fmt.Fprintf(sb, "%sSonst:\n", in)
			p.stmts(sb, s.Else, d+1)
		}
	case *While:
		fmt.Fprintf(sb, "%sSolange %s, mache:\n", in, p.Expr(s.Cond))
		p.stmts(sb, s.Body, d+1)
	case *DoWhile:
		fmt.Fprintf(sb, "%sMache:\n", in)
		p.stmts(sb, s.Body, d+1)
		fmt.Fprintf(sb, "%sSolange %s.\n", in, p.Expr(s.Cond))
	case *RepeatN:
		fmt.Fprintf(sb, "%sWiederhole:\n", in)
		p.stmts(sb, s.Body, d+1)
		fmt.Fprintf(sb, "%s%s Mal.\n", in, p.operand(s.N, pPrimary))
	case *ForCount:
		jede := "jede"
		if !s.T.Fem() {
			jede = "jeden"
		}
		fmt.Fprintf(sb, "%sFür %s %s %s von %s bis %s", in, jede, s.T.SrcDeclined(), s.Var, p.operand(s.From, pPrimary), p.operand(s.To, pPrimary))
		if s.Step != nil {
			fmt.Fprintf(sb, " mit Schrittgröße %s", p.operand(s.Step, pPrimary))
		}
		sb.WriteString(", mache:\n")
		p.stmts(sb, s.Body, d+1)
	case *ForEach:
		jede := "jede"
		if !s.ElemT.Fem() {
			jede = "jeden"
		}
		idx := ""
		if s.Index != "" {
			idx = " mit Index " + s.Index
		}
		fmt.Fprintf(sb, "%sFür %s %s %s%s in %s, mache:\n", in, jede, s.ElemT.SrcDeclined(), s.Var, idx, p.operand(s.Coll, pPrimary))
		p.stmts(sb, s.Body, d+1)
	case *Break:
		sb.WriteString(in + "Verlasse die Schleife.\n")
	case *Continue:
		sb.WriteString(in + "Fahre mit der Schleife fort.\n")
	case *Return:
		if s.X == nil {
			sb.WriteString(in + "Verlasse die Funktion.\n")
		} else {
			fmt.Fprintf(sb, "%sGib %s zurück.\n", in, p.Expr(s.X))
		}
	case *Print:
		x := p.operand(s.X, pPrimary)
		if _, isRef := s.X.(*Ref); isRef && p.ParenPrint {
			x = "(" + x + ")"
		}
		fmt.Fprintf(sb, "%sSchreibe %s auf eine Zeile.\n", in, x)
	case *CallStmt:
		sb.WriteString(in + p.call(s.C) + ".\n")
	case *Block:
		sb.WriteString(in + ":\n")
		p.stmts(sb, s.Body, d+1)
	default:
		panic(fmt.Sprintf("unprintable statement %T", s))
	}
}

func (p *Printer) structDecl(sb *strings.Builder, s *Struct) {
	pub, pubf := "", ""
	if p.Public {
		pub, pubf = "öffentliche ", "öffentlichen "
	}
	sb.WriteString("Wir nennen die " + pub + "Kombination aus\n")
	for _, f := range s.Fields {
		art := "dem"
		if f.T.Fem() {
			art = "der"
		}
		fmt.Fprintf(sb, "\t%s %s%s %s,\n", art, pubf, f.T.Src(), f.Name) // the parser wants the undeclined "dem Buchstabe x" here
	}
	fmt.Fprintf(sb, "einen %s, und erstellen sie so:\n\t\"ein %s", s.Name, s.Name)
	for i, f := range s.Fields {
		if i == 0 {
			sb.WriteString(" mit")
		} else {
			sb.WriteString(" und")
		}
		fmt.Fprintf(sb, " %s <%s>", f.Name, f.Name)
	}
	sb.WriteString("\"\n\n")
}

func (p *Printer) funcDecl(sb *strings.Builder, f *Func) {
	if p.Public {
		fmt.Fprintf(sb, "Die öffentliche Funktion %s ", f.Name)
	} else {
		fmt.Fprintf(sb, "Die Funktion %s ", f.Name)
	}
	switch len(f.Params) {
	case 0:
	case 1:
		fmt.Fprintf(sb, "mit dem Parameter %s vom Typ %s, ", f.Params[0].Name, f.Params[0].T.ParamSrc(f.Params[0].Ref))
	default:
		var names, types []string
		for _, pa := range f.Params {
			names = append(names, pa.Name)
			types = append(types, pa.T.ParamSrc(pa.Ref))
		}
		n := len(names)
		fmt.Fprintf(sb, "mit den Parametern %s und %s vom Typ %s und %s, ", strings.Join(names[:n-1], ", "), names[n-1], strings.Join(types[:n-1], ", "), types[n-1])
	}
	if f.Ret == nil {
		sb.WriteString("gibt nichts zurück, macht:\n")
	} else {
		fmt.Fprintf(sb, "gibt %s %s zurück, macht:\n", f.Ret.Accusative(), f.Ret.SrcDeclined())
	}
	p.stmts(sb, f.Body, 1)
	sb.WriteString("Und kann so benutzt werden:\n\t\"" + f.Words[0])
	for i, pa := range f.Params {
		fmt.Fprintf(sb, " <%s>", pa.Name)
		if w := f.Words[i+1]; w != "" {
			sb.WriteString(" " + w)
		}
	}
	sb.WriteString("\"\n\n")
}

// Program prints a whole program.
func (p *Printer) Program(pr *Program) string {
	var sb strings.Builder
	sb.WriteString("Binde \"Duden/Ausgabe\" ein.\n\n")
	for _, s := range pr.Structs {
		p.structDecl(&sb, s)
	}
	if len(pr.Prelude) > 0 {
		p.stmts(&sb, pr.Prelude, 0)
		sb.WriteString("\n")
	}
	for _, f := range pr.Funcs {
		p.funcDecl(&sb, f)
	}
	p.stmts(&sb, pr.Main, 0)
	return sb.String()
}

// ProgramSplit prints the program as two modules: lib.ddp (Kombinationen and functions, public) and main.ddp (imports lib).
func (p *Printer) ProgramSplit(pr *Program) (lib, main string) {
	var lb, mb strings.Builder
	lp := *p
	lp.Public = true
	lb.WriteString("Binde \"Duden/Ausgabe\" ein.\n\n")
	for _, s := range pr.Structs {
		lp.structDecl(&lb, s)
	}
	for _, f := range pr.Funcs {
		if !f.InMain {
			lp.funcDecl(&lb, f)
		}
	}
	mb.WriteString("Binde \"Duden/Ausgabe\" ein.\nBinde \"lib\" ein.\n\n")
	if len(pr.Prelude) > 0 {
		p.stmts(&mb, pr.Prelude, 0)
		mb.WriteString("\n")
	}
	for _, f := range pr.Funcs {
		if f.InMain {
			p.funcDecl(&mb, f)
		}
	}
	p.stmts(&mb, pr.Main, 0)
	return lb.String(), mb.String()
}
