package gen

import (
	"fmt"
	"math"

	"pgregory.net/rapid"
)

// Config steers the program generator.
type Config struct {
	MaxStmts   int  // statements in main
	MaxDepth   int  // expression depth
	Funcs      int  // max number of functions
	Structs    bool // generate Kombinationen
	AllowRTE   bool // allow operations that may end in a Laufzeitfehler (out-of-range index, crossed slice)
	PrintHeavy bool // print (almost) every declared value
	Bias       string
}

type varInfo struct {
	Name   string
	T      *Type
	Frozen bool // never assigned after initialisation (loop bounds, counters)
	IsRef  bool // a Referenz parameter
}

// G is the generator state.
type G struct {
	t        *rapid.T
	cfg      Config
	prog     *Program
	scopes   [][]varInfo
	funcs    []*Func
	n        int // name counter
	loop     int
	inFunc   *Func
	stmtsOut int
	Feat     map[string]int
}

func (g *G) feat(f string) { g.Feat[f]++ }

func (g *G) name(prefix string) string {
	g.n++
	return fmt.Sprintf("%s%d", prefix, g.n)
}

func (g *G) push()             { g.scopes = append(g.scopes, nil) }
func (g *G) pop()              { g.scopes = g.scopes[:len(g.scopes)-1] }
func (g *G) declare(v varInfo) { g.scopes[len(g.scopes)-1] = append(g.scopes[len(g.scopes)-1], v) }

func (g *G) vars(pred func(varInfo) bool) []varInfo {
	var out []varInfo
	for _, s := range g.scopes {
		for _, v := range s {
			if pred(v) {
				out = append(out, v)
			}
		}
	}
	return out
}

func (g *G) varsOf(t *Type) []varInfo { return g.vars(func(v varInfo) bool { return v.T == t }) }

// uniform draws: rapid's integer generators are deliberately biased towards small values, which makes
// structurally identical programs very likely; choices between alternatives are drawn uniformly from bits instead
// (still through rapid, so shrinking and replay work)
func uniform(t *rapid.T, n int, label string) int {
	if n <= 1 {
		return 0
	}
	bits := 0
	for (1 << bits) < n {
		bits++
	}
	for try := 0; try < 6; try++ {
		v := 0
		for i := 0; i < bits; i++ {
			v <<= 1
			if rapid.Bool().Draw(t, label) {
				v |= 1
			}
		}
		if v < n {
			return v
		}
	}
	return rapid.IntRange(0, n-1).Draw(t, label)
}

func pick[T any](t *rapid.T, xs []T, label string) T { return xs[uniform(t, len(xs), label)] }

func (g *G) intn(label string, lo, hi int) int { return lo + uniform(g.t, hi-lo+1, label) }
func (g *G) chance(label string, pct int) bool { return uniform(g.t, 100, label) < pct }

// ---------------------------------------------------------------- types

func (g *G) scalarType(label string) *Type {
	if g.cfg.Bias == "heap" && g.chance(label+"-heapbias", 50) {
		return TText
	}
	return rapid.SampledFrom([]*Type{TZahl, TZahl, TKomma, TByte, TBool, TChar, TText, TText}).Draw(g.t, label)
}

func (g *G) anyType(label string) *Type {
	k := g.intn(label+"-kind", 0, 9)
	if g.cfg.Bias == "heap" && k <= 5 && g.chance(label+"-heapbias2", 50) {
		k = 6 + k%4 // lists and Kombinationen instead of scalars
	}
	switch {
	case k <= 5:
		return g.scalarType(label)
	case k <= 7:
		return ListOf(g.scalarType(label + "-elem"))
	default:
		if g.cfg.Structs && len(g.prog.Structs) > 0 {
			s := rapid.SampledFrom(g.prog.Structs).Draw(g.t, label+"-struct")
			if g.chance(label+"-slist", 25) {
				return ListOf(s.Type())
			}
			return s.Type()
		}
		return ListOf(g.scalarType(label + "-elem"))
	}
}

// printable with "Schreibe <x> auf eine Zeile" (Duden/Ausgabe has overloads for the primitives, Text and lists of them)
func Printable(t *Type) bool {
	return t.K != KStruct && !(t.K == KList && (t.Elem.K == KStruct || t.Elem.K == KList))
}

// ---------------------------------------------------------------- literals

var zahlBoundary = []int64{0, 1, -1, 2, 3, 7, 10, 100, 255, 256, -128, 1 << 31, -(1 << 31), (1 << 53) + 1, math.MaxInt64, math.MinInt64 + 1, 1 << 62, 65536, 127, 128}
var kommaVals = []float64{0, 0.5, 1, -1, 2.5, -2.5, 0.1, 3.75, 10, 100.25, 1e6, 0.001, 255, 256, 1e15, 123456.789, -0.25, 7}
var charVals = []rune{'a', 'b', 'Z', '0', ' ', 'ä', 'ß', '€', '𝄞', 'x'}
var textVals = []string{"", "a", "ab", "abc", "ä", "aäb", "€uro", "𝄞", "x y", "Hallo", "ÄÖÜ", "a€𝄞b", "12", "-7", "0"}

func (g *G) lit(t *Type) Expr {
	switch t.K {
	case KZahl:
		if g.chance("zahl-boundary", 25) {
			return &Lit{T: t, I: pick(g.t, zahlBoundary, "zb")}
		}
		return &Lit{T: t, I: int64(g.intn("zahl", -20, 40))}
	case KKomma:
		return &Lit{T: t, F: pick(g.t, kommaVals, "kv")}
	case KByte:
		return &Lit{T: t, I: int64(pick(g.t, []int{0, 1, 2, 3, 7, 100, 127, 128, 200, 254, 255}, "bv"))}
	case KBool:
		return &Lit{T: t, B: rapid.Bool().Draw(g.t, "wv")}
	case KChar:
		return &Lit{T: t, C: pick(g.t, charVals, "cv")}
	case KText:
		return &Lit{T: t, S: pick(g.t, textVals, "tv")}
	case KList:
		n := g.intn("listlen", 0, 4)
		if n == 0 {
			return &EmptyList{T: t}
		}
		l := &ListLit{T: t}
		for i := 0; i < n; i++ {
			l.Elems = append(l.Elems, g.lit(t.Elem))
		}
		return l
	case KStruct:
		sl := &StructLit{S: t.S}
		for _, f := range t.S.Fields {
			sl.Args = append(sl.Args, g.lit(f.T))
		}
		return sl
	}
	panic("lit")
}

func smallZahl(g *G, label string, lo, hi int) Expr {
	return &Lit{T: TZahl, I: int64(g.intn(label, lo, hi))}
}

// ---------------------------------------------------------------- expressions

// Expr generates an expression of type t.
func (g *G) Expr(t *Type, depth int) Expr {
	// leaves
	if depth <= 0 || g.chance("leaf", 25) {
		if vs := g.varsOf(t); len(vs) > 0 && g.chance("use-var", 70) {
			v := pick(g.t, vs, "var")
			return &Ref{Name: v.Name, T: t}
		}
		return g.lit(t)
	}
	d := depth - 1
	num := func(label string) *Type {
		return rapid.SampledFrom([]*Type{TZahl, TZahl, TKomma, TByte}).Draw(g.t, label)
	}
	intT := func(label string) *Type { return rapid.SampledFrom([]*Type{TZahl, TZahl, TByte}).Draw(g.t, label) }
	switch t.K {
	case KZahl:
		switch k := g.intn("zahl-prod", 0, 15); k {
		case 0, 1, 2:
			op := pick(g.t, []string{"plus", "minus", "mal"}, "op")
			lt, rt := intT("lt"), intT("rt")
			if lt == TByte && rt == TByte {
				rt = TZahl
			}
			g.feat("bin:" + op + ":" + lt.Src() + "," + rt.Src())
			return &Bin{Op: op, L: g.Expr(lt, d), R: g.Expr(rt, d), T: t}
		case 3:
			lt, rt := intT("lt"), intT("rt")
			if lt == TByte && rt == TByte {
				lt = TZahl
			}
			g.feat("bin:modulo:" + lt.Src() + "," + rt.Src())
			return &Bin{Op: "modulo", L: g.Expr(lt, d), R: g.nonZero(rt), T: t}
		case 4:
			op := pick(g.t, []string{"land", "lor", "lxor"}, "op")
			lt, rt := intT("lt"), intT("rt")
			if lt == TByte && rt == TByte {
				rt = TZahl
			}
			g.feat("bin:" + op + ":" + lt.Src() + "," + rt.Src())
			return &Bin{Op: op, L: g.Expr(lt, d), R: g.Expr(rt, d), T: t}
		case 5:
			op := pick(g.t, []string{"shl", "shr"}, "op")
			g.feat("bin:" + op + ":Zahl")
			var cnt Expr = smallZahl(g, "shcount", 0, 63)
			if g.chance("byte-count", 30) {
				cnt = &Lit{T: TByte, I: int64(g.intn("shcountb", 0, 63))}
			}
			return &Bin{Op: op, L: g.Expr(TZahl, d), R: cnt, T: t}
		case 6:
			xt := intT("negt")
			g.feat("un:neg:" + xt.Src())
			return &Un{Op: "neg", X: g.Expr(xt, d), T: t}
		case 7:
			xt := intT("abst")
			g.feat("un:abs:" + xt.Src())
			return &Un{Op: "abs", X: g.Expr(xt, d), T: t}
		case 8:
			g.feat("un:lnot:Zahl")
			return &Un{Op: "lnot", X: g.Expr(TZahl, d), T: t}
		case 9:
			lt := pick(g.t, []*Type{TText, ListOf(TZahl), ListOf(TText), ListOf(TBool)}, "lent")
			g.feat("un:len:" + lt.Src())
			return &Un{Op: "len", X: g.Expr(lt, d), T: t}
		case 10:
			ft := pick(g.t, []*Type{TKomma, TByte, TBool, TChar}, "castfrom")
			g.feat("cast:" + ft.Src() + "->Zahl")
			if ft == TKomma {
				return &Cast{X: g.smallKomma(d), T: t}
			}
			return &Cast{X: g.Expr(ft, d), T: t}
		case 11:
			g.feat("cast:Text->Zahl")
			return &Cast{X: &Lit{T: TText, S: pick(g.t, []string{"0", "12", "-7", "9223372036854775807", "42"}, "numtext")}, T: t}
		case 12:
			return g.indexExpr(t, d)
		case 13:
			return g.fallsExpr(t, d)
		case 14:
			if c := g.callExpr(t, d); c != nil {
				return c
			}
			return g.fieldExpr(t, d)
		default:
			return g.fieldExpr(t, d)
		}
	case KKomma:
		switch k := g.intn("komma-prod", 0, 9); k {
		case 0, 1, 2:
			op := pick(g.t, []string{"plus", "minus", "mal"}, "op")
			lt, rt := num("lt"), num("rt")
			if lt != TKomma && rt != TKomma {
				if g.chance("which", 50) {
					lt = TKomma
				} else {
					rt = TKomma
				}
			}
			g.feat("bin:" + op + ":" + lt.Src() + "," + rt.Src())
			return &Bin{Op: op, L: g.Expr(lt, d), R: g.Expr(rt, d), T: t}
		case 3, 4:
			lt, rt := num("lt"), num("rt")
			g.feat("bin:durch:" + lt.Src() + "," + rt.Src())
			return &Bin{Op: "durch", L: g.Expr(lt, d), R: g.Expr(rt, d), T: t}
		case 5:
			g.feat("un:neg:Kommazahl")
			return &Un{Op: "neg", X: g.Expr(TKomma, d), T: t}
		case 6:
			g.feat("un:abs:Kommazahl")
			return &Un{Op: "abs", X: g.Expr(TKomma, d), T: t}
		case 7:
			ft := pick(g.t, []*Type{TZahl, TByte}, "castfrom")
			g.feat("cast:" + ft.Src() + "->Kommazahl")
			return &Cast{X: g.Expr(ft, d), T: t}
		case 8:
			return g.fallsExpr(t, d)
		default:
			if c := g.callExpr(t, d); c != nil {
				return c
			}
			return g.indexExpr(t, d)
		}
	case KByte:
		switch k := g.intn("byte-prod", 0, 8); k {
		case 0, 1:
			op := pick(g.t, []string{"plus", "minus", "mal"}, "op")
			g.feat("bin:" + op + ":Byte,Byte")
			return &Bin{Op: op, L: g.Expr(TByte, d), R: g.Expr(TByte, d), T: t}
		case 2:
			g.feat("bin:modulo:Byte,Byte")
			return &Bin{Op: "modulo", L: g.Expr(TByte, d), R: g.nonZero(TByte), T: t}
		case 3:
			op := pick(g.t, []string{"land", "lor", "lxor"}, "op")
			g.feat("bin:" + op + ":Byte,Byte")
			return &Bin{Op: op, L: g.Expr(TByte, d), R: g.Expr(TByte, d), T: t}
		case 4:
			op := pick(g.t, []string{"shl", "shr"}, "op")
			g.feat("bin:" + op + ":Byte")
			var cnt Expr = smallZahl(g, "shcount", 0, 7)
			if g.chance("byte-count", 50) {
				cnt = &Lit{T: TByte, I: int64(g.intn("shcountb", 0, 7))}
			}
			return &Bin{Op: op, L: g.Expr(TByte, d), R: cnt, T: t}
		case 5:
			g.feat("un:lnot:Byte")
			return &Un{Op: "lnot", X: g.Expr(TByte, d), T: t}
		case 6:
			ft := pick(g.t, []*Type{TZahl, TZahl, TKomma}, "castfrom") // Wahrheitswert -> Byte is not admissible
			g.feat("cast:" + ft.Src() + "->Byte")
			if ft == TKomma {
				return &Cast{X: &Lit{T: TKomma, F: pick(g.t, []float64{0, 0.5, 1, 2.5, 100.25, 255, 200.75}, "kb")}, T: t}
			}
			return &Cast{X: g.Expr(ft, d), T: t}
		case 7:
			return g.fallsExpr(t, d)
		default:
			return g.indexExpr(t, d)
		}
	case KBool:
		switch k := g.intn("bool-prod", 0, 13); k {
		case 0:
			g.feat("un:not")
			return &Un{Op: "not", X: g.Expr(TBool, d), T: t}
		case 1, 2:
			op := pick(g.t, []string{"und", "oder", "xor"}, "op")
			g.feat("bin:" + op)
			return &Bin{Op: op, L: g.Expr(TBool, d), R: g.Expr(TBool, d), T: t}
		case 3, 4, 5:
			op := pick(g.t, []string{"kleiner", "groesser", "kleinergleich", "groessergleich"}, "op")
			lt, rt := num("lt"), num("rt")
			g.feat("bin:" + op + ":" + lt.Src() + "," + rt.Src())
			if g.chance("cmp-boundary", 40) {
				n := g.intn("cmp-base", -3, 6)
				return &Bin{Op: op, L: g.near(lt, n), R: g.near(rt, n), T: t}
			}
			return &Bin{Op: op, L: g.Expr(lt, d), R: g.Expr(rt, d), T: t}
		case 6, 7, 8:
			op := pick(g.t, []string{"gleich", "ungleich"}, "op")
			et := g.anyType("eqt")
			if g.chance("eq-list-bias", 35) {
				et = ListOf(g.scalarType("eq-elem"))
			}
			g.feat("bin:" + op + ":" + eqClass(et))
			l := g.Expr(et, d)
			if (et.K == KList || et.K == KText || et.K == KStruct) && g.chance("eq-literal-lhs", 50) {
				l = g.lit(et) // literal operands make the near-miss construction below possible
			}
			r := g.Expr(et, d)
			if g.chance("eq-same-operand", 25) { // make equality hold more often than by chance
				r = l
			} else if ll, ok := l.(*ListLit); ok && g.chance("eq-near-miss", 60) {
				// same length, one element differs: the interesting case for element-wise comparison
				cp := &ListLit{T: ll.T, Elems: append([]Expr(nil), ll.Elems...)}
				cp.Elems[g.intn("eq-miss-at", 0, len(cp.Elems)-1)] = g.lit(ll.T.Elem)
				r = cp
				g.feat("eq:list-near-miss")
			} else if lt, ok := l.(*Lit); ok && lt.T.K == KText && len(lt.S) > 0 && g.chance("eq-near-miss-text", 60) {
				rs := []rune(lt.S)
				rs[g.intn("eq-miss-at-t", 0, len(rs)-1)] = pick(g.t, charVals, "eqc")
				r = &Lit{T: TText, S: string(rs)}
				g.feat("eq:text-near-miss")
			}
			return &Bin{Op: op, L: l, R: r, T: t}
		case 9:
			xt, at, bt := num("xt"), num("at"), num("bt")
			g.feat("between:" + xt.Src() + "," + at.Src() + "," + bt.Src())
			if g.chance("between-boundary", 60) {
				// operands around one base value: equal, half a step and one step apart, in mixed numeric types
				n := g.intn("btw-base", -3, 6)
				return &Between{X: g.near(xt, n), A: g.near(at, n), B: g.near(bt, n)}
			}
			return &Between{X: g.Expr(xt, d), A: g.Expr(at, d), B: g.Expr(bt, d)}
		case 10:
			ft := pick(g.t, []*Type{TZahl, TByte}, "castfrom")
			g.feat("cast:" + ft.Src() + "->Wahrheitswert")
			return &Cast{X: g.Expr(ft, d), T: t}
		case 11:
			return g.fallsExpr(t, d)
		case 12:
			if c := g.callExpr(t, d); c != nil {
				return c
			}
			return g.indexExpr(t, d)
		default:
			return g.fieldExpr(t, d)
		}
	case KChar:
		switch k := g.intn("char-prod", 0, 4); k {
		case 0, 1:
			g.feat("index:Text")
			return g.indexExpr(t, d)
		case 2:
			g.feat("cast:Zahl->Buchstabe")
			return &Cast{X: &Lit{T: TZahl, I: int64(pick(g.t, charVals, "cp"))}, T: t}
		case 3:
			return g.fallsExpr(t, d)
		default:
			g.feat("cast:Byte->Buchstabe")
			return &Cast{X: &Lit{T: TByte, I: int64(pick(g.t, []int{65, 97, 48, 122, 32}, "bcp"))}, T: t}
		}
	case KText:
		switch k := g.intn("text-prod", 0, 10); k {
		case 0, 1, 2:
			form := g.intn("concat-form", 0, 2)
			g.feat(fmt.Sprintf("concat:text:%d", form))
			switch form {
			case 0:
				return &Bin{Op: "concat", L: g.Expr(TText, d), R: g.Expr(TText, d), T: t}
			case 1:
				return &Bin{Op: "concat", L: g.Expr(TText, d), R: g.Expr(TChar, d), T: t}
			default:
				return &Bin{Op: "concat", L: g.Expr(TChar, d), R: g.Expr(TText, d), T: t}
			}
		case 3, 4:
			return g.sliceExpr(t, d)
		case 5, 6:
			ft := pick(g.t, []*Type{TZahl, TKomma, TByte, TBool, TChar}, "castfrom")
			g.feat("cast:" + ft.Src() + "->Text")
			return &Cast{X: g.Expr(ft, d), T: t}
		case 7:
			return g.fallsExpr(t, d)
		case 8:
			if c := g.callExpr(t, d); c != nil {
				return c
			}
			return g.indexExpr(t, d)
		case 9:
			return g.indexExpr(t, d)
		default:
			return g.fieldExpr(t, d)
		}
	case KList:
		switch k := g.intn("list-prod", 0, 9); k {
		case 0, 1, 2:
			form := g.intn("concat-form", 0, 3)
			if t.Elem.K == KText || t.Elem.K == KChar { // Text/Buchstabe scalars concatenate to a Text, not to a list
				form = g.intn("concat-form-t", 0, 0)
			}
			g.feat(fmt.Sprintf("concat:list:%s:%d", eqClass(t), form))
			switch form {
			case 0:
				return &Bin{Op: "concat", L: g.Expr(t, d), R: g.Expr(t, d), T: t}
			case 1:
				return &Bin{Op: "concat", L: g.Expr(t, d), R: g.Expr(t.Elem, d), T: t}
			case 2:
				return &Bin{Op: "concat", L: g.Expr(t.Elem, d), R: g.Expr(t, d), T: t}
			default:
				return &Bin{Op: "concat", L: g.Expr(t.Elem, d), R: g.Expr(t.Elem, d), T: t}
			}
		case 3, 4:
			return g.sliceExpr(t, d)
		case 5:
			if t.Elem.K != KList {
				g.feat("cast:scalar->list:" + eqClass(t))
				return &Cast{X: g.Expr(t.Elem, d), T: t}
			}
			return g.lit(t)
		case 6:
			return g.fallsExpr(t, d)
		case 7:
			if c := g.callExpr(t, d); c != nil {
				return c
			}
			return g.fieldExpr(t, d)
		case 8:
			n := g.intn("listlit-n", 1, 3)
			l := &ListLit{T: t}
			for i := 0; i < n; i++ {
				l.Elems = append(l.Elems, g.Expr(t.Elem, d))
			}
			g.feat("listlit:" + eqClass(t))
			return l
		default:
			return g.fieldExpr(t, d)
		}
	case KStruct:
		switch k := g.intn("struct-prod", 0, 3); k {
		case 0:
			sl := &StructLit{S: t.S}
			for _, f := range t.S.Fields {
				sl.Args = append(sl.Args, g.Expr(f.T, d))
			}
			g.feat("structlit")
			return sl
		case 1:
			return g.fallsExpr(t, d)
		case 2:
			return g.indexExpr(t, d)
		default:
			if c := g.callExpr(t, d); c != nil {
				return c
			}
			return g.lit(t)
		}
	}
	return g.lit(t)
}

func eqClass(t *Type) string {
	switch t.K {
	case KList:
		return "list(" + eqClass(t.Elem) + ")"
	case KStruct:
		return "Kombination"
	}
	return t.Src()
}

// near returns a literal of numeric type t close to n: n, n +- 0.5 (Kommazahl only), n +- 1, n +- 2
func (g *G) near(t *Type, n int) Expr {
	switch t {
	case TKomma:
		return &Lit{T: t, F: float64(n) + pick(g.t, []float64{0, 0.5, -0.5, 1, -1, 2, -2.5}, "near-k")}
	case TByte:
		v := n + pick(g.t, []int{0, 1, -1, 2}, "near-b")
		if v < 0 {
			v = 0
		}
		return &Lit{T: t, I: int64(v)}
	}
	return &Lit{T: TZahl, I: int64(n + pick(g.t, []int{0, 0, 1, -1, 2, -2}, "near-z"))}
}

// heapTemp builds an expression of a non-primitive type that allocates a temporary when evaluated
func (g *G) heapTemp(t *Type) Expr {
	base := g.Expr(t, 1)
	switch g.intn("heaptemp", 0, 2) {
	case 0:
		return &Bin{Op: "concat", L: base, R: g.lit(t), T: t}
	case 1:
		return &SliceFrom{X: base, N: smallZahl(g, "ht-from", 1, 2)}
	default:
		return &Falls{Then: base, Cond: g.Expr(TBool, 1), Else: g.lit(t)}
	}
}

func (g *G) nonZero(t *Type) Expr {
	if t == TByte {
		return &Lit{T: TByte, I: int64(pick(g.t, []int{1, 2, 3, 7, 100, 255}, "nzb"))}
	}
	return &Lit{T: TZahl, I: pick(g.t, []int64{1, 2, 3, -2, 7, 10, 256, -1}, "nz")}
}

// a Kommazahl expression that converts to Zahl inside the specified domain
func (g *G) smallKomma(d int) Expr {
	return &Lit{T: TKomma, F: pick(g.t, []float64{0, 0.5, -0.5, 2.5, -2.5, 3.75, 100.25, 1e6, -123456.789, 255.9, 1e15}, "sk")}
}

func (g *G) fallsExpr(t *Type, d int) Expr {
	g.feat("falls:" + eqClass(t))
	return &Falls{Then: g.Expr(t, d), Cond: g.Expr(TBool, d), Else: g.Expr(t, d)}
}

// an index expression yielding t: collection is a variable or expression of list(t) / Text
func (g *G) indexExpr(t *Type, d int) Expr {
	var coll Expr
	var n int = -1
	if t == TChar {
		coll = g.Expr(TText, d)
	} else {
		if t.K == KList {
			return g.lit(t)
		}
		coll = g.Expr(ListOf(t), d)
	}
	g.feat("index:" + eqClass(coll.Type()))
	// prefer an index that is valid for a literal collection; otherwise small positive
	switch c := coll.(type) {
	case *ListLit:
		n = len(c.Elems)
	case *Lit:
		n = len([]rune(c.S))
	case *EmptyList:
		n = 0
	}
	var idx Expr
	if n > 0 {
		idx = smallZahl(g, "idx-valid", 1, n)
	} else if n == 0 || !g.cfg.AllowRTE {
		// make the access safe: wrap into a guarded falls with a default
		idx = smallZahl(g, "idx", 1, 3)
		guard := &Bin{Op: "groessergleich", L: &Un{Op: "len", X: coll, T: TZahl}, R: idx, T: TBool}
		return &Falls{Then: &Bin{Op: "index", L: coll, R: idx, T: t}, Cond: guard, Else: g.lit(t)}
	} else {
		idx = smallZahl(g, "idx-any", -1, 5)
		g.feat("index:maybe-out-of-range")
	}
	if g.chance("byte-index", 15) {
		if l, ok := idx.(*Lit); ok && l.I >= 0 {
			idx = &Lit{T: TByte, I: l.I}
			g.feat("index:byte-index")
		}
	}
	return &Bin{Op: "index", L: coll, R: idx, T: t}
}

func (g *G) sliceExpr(t *Type, d int) Expr {
	x := g.Expr(t, d)
	form := g.intn("slice-form", 0, 2)
	g.feat(fmt.Sprintf("slice:%s:%d", eqClass(t), form))
	lo, hi := -1, 6
	a := smallZahl(g, "sl-a", lo, hi)
	switch form {
	case 0:
		b := smallZahl(g, "sl-b", lo, hi)
		if !g.cfg.AllowRTE { // keep bounds uncrossed after clamping: from <= to
			al, bl := a.(*Lit), b.(*Lit)
			if al.I > bl.I {
				al.I, bl.I = bl.I, al.I
			}
		}
		return &Slice{X: x, From: a, To: b}
	case 1:
		return &SliceTo{X: x, N: a}
	default:
		return &SliceFrom{X: x, N: a}
	}
}

func (g *G) fieldExpr(t *Type, d int) Expr {
	// find a struct variable with a field of type t
	vs := g.vars(func(v varInfo) bool {
		if v.T.K != KStruct {
			return false
		}
		for _, f := range v.T.S.Fields {
			if f.T == t {
				return true
			}
		}
		return false
	})
	if len(vs) == 0 {
		return g.lit(t)
	}
	v := pick(g.t, vs, "fvar")
	var names []string
	for _, f := range v.T.S.Fields {
		if f.T == t {
			names = append(names, f.Name)
		}
	}
	g.feat("field:" + eqClass(t))
	return &FieldGet{X: &Ref{Name: v.Name, T: v.T}, Name: pick(g.t, names, "fname"), T: t}
}

func (g *G) callExpr(t *Type, d int) Expr {
	var cands []*Func
	for _, f := range g.funcs {
		if f.Ret == t && f != g.inFunc {
			cands = append(cands, f)
		}
	}
	if len(cands) == 0 {
		return nil
	}
	f := pick(g.t, cands, "callee")
	c := g.mkCall(f, d)
	if c == nil {
		return nil
	}
	return c
}

func (g *G) mkCall(f *Func, d int) *Call {
	c := &Call{F: f}
	usedRef := map[string]bool{}
	for _, p := range f.Params {
		if p.Ref {
			vs := g.vars(func(v varInfo) bool { return v.T == p.T && !v.Frozen })
			// an element of a list variable / a field of a Kombination variable can be passed by Referenz, too
			if g.chance("ref-arg-element", 30) {
				if ls := g.vars(func(v varInfo) bool { return !v.Frozen && v.T.K == KList && v.T.Elem == p.T }); len(ls) > 0 && g.cfg.AllowRTE {
					v := pick(g.t, ls, "refelem")
					c.Args = append(c.Args, &LRef{L: LValue{Root: v.Name, RT: v.T, Path: []Step{{Index: smallZahl(g, "refelem-i", 1, 2)}}, T: p.T}})
					g.feat("call:ref:element")
					continue
				}
				if ss := g.vars(func(v varInfo) bool {
					if v.Frozen || v.T.K != KStruct {
						return false
					}
					for _, f := range v.T.S.Fields {
						if f.T == p.T {
							return true
						}
					}
					return false
				}); len(ss) > 0 {
					v := pick(g.t, ss, "reffield")
					var names []string
					for _, f := range v.T.S.Fields {
						if f.T == p.T {
							names = append(names, f.Name)
						}
					}
					c.Args = append(c.Args, &LRef{L: LValue{Root: v.Name, RT: v.T, Path: []Step{{Field: pick(g.t, names, "reffield-n")}}, T: p.T}})
					g.feat("call:ref:field")
					continue
				}
			}
			if len(vs) == 0 {
				return nil
			}
			v := pick(g.t, vs, "refarg")
			if usedRef[v.Name] {
				g.feat("call:ref+ref:sameVar")
			}
			usedRef[v.Name] = true
			c.Args = append(c.Args, &Ref{Name: v.Name, T: p.T})
			g.feat("call:ref:" + eqClass(p.T))
		} else {
			a := g.Expr(p.T, d)
			if r, ok := a.(*Ref); ok && usedRef[r.Name] {
				g.feat("call:val+ref:sameVar")
			}
			c.Args = append(c.Args, a)
			g.feat("call:val:" + eqClass(p.T))
		}
	}
	// value argument naming a variable that is also passed by reference later
	for i, p := range f.Params {
		if !p.Ref {
			if r, ok := c.Args[i].(*Ref); ok && usedRef[r.Name] {
				g.feat("call:val+ref:sameVar")
			}
		}
	}
	return c
}

// ---------------------------------------------------------------- statements

func (g *G) lvalue() (LValue, bool) {
	vs := g.vars(func(v varInfo) bool { return !v.Frozen })
	if len(vs) == 0 {
		return LValue{}, false
	}
	v := pick(g.t, vs, "lv")
	l := LValue{Root: v.Name, RT: v.T, T: v.T}
	switch v.T.K {
	case KList:
		if g.chance("lv-elem", 40) {
			idx := g.safeIndexFor(&Ref{Name: v.Name, T: v.T})
			if idx != nil {
				l.Path = append(l.Path, Step{Index: idx})
				l.T = v.T.Elem
				g.feat("lvalue:element:" + eqClass(v.T))
				if l.T.K == KStruct && g.chance("lv-elem-field", 50) {
					f := pick(g.t, l.T.S.Fields, "lvf")
					l.Path = append(l.Path, Step{Field: f.Name})
					l.T = f.T
					g.feat("lvalue:element.field")
				}
			}
		}
	case KText:
		if g.chance("lv-char", 30) {
			idx := g.safeIndexFor(&Ref{Name: v.Name, T: v.T})
			if idx != nil {
				l.Path = append(l.Path, Step{Index: idx})
				l.T = TChar
				g.feat("lvalue:text-char")
			}
		}
	case KStruct:
		if g.chance("lv-field", 60) {
			f := pick(g.t, v.T.S.Fields, "lvf")
			l.Path = append(l.Path, Step{Field: f.Name})
			l.T = f.T
			g.feat("lvalue:field:" + eqClass(f.T))
			if f.T.K == KList && g.chance("lv-field-elem", 40) {
				// element of a list field: index guarded by construction is not possible here; use index 1 only when RTE allowed
				if g.cfg.AllowRTE {
					l.Path = append(l.Path, Step{Index: smallZahl(g, "lvfi", 1, 2)})
					l.T = f.T.Elem
					g.feat("lvalue:field.element")
				}
			}
		}
	}
	return l, true
}

// safeIndexFor returns an index expression for the collection variable; nil if no safe index can be built.
// Indexed assignment cannot be guarded inside an expression, so the statement generator wraps it in an If.
func (g *G) safeIndexFor(coll Expr) Expr {
	return smallZahl(g, "lvi", 1, 3)
}

// guard wraps a statement that indexes collection root at idx into "Wenn die Länge von root >= idx"
func guardStmt(l LValue, s Stmt) Stmt {
	var conds []Expr
	cur := Expr(&Ref{Name: l.Root, T: l.RT})
	for _, st := range l.Path {
		if st.Field != "" {
			var ft *Type
			for _, f := range cur.Type().S.Fields {
				if f.Name == st.Field {
					ft = f.T
				}
			}
			cur = &FieldGet{X: cur, Name: st.Field, T: ft}
			continue
		}
		conds = append(conds, &Bin{Op: "groessergleich", L: &Un{Op: "len", X: cur, T: TZahl}, R: st.Index, T: TBool})
		if cur.Type().K == KText {
			break
		}
		cur = &Bin{Op: "index", L: cur, R: st.Index, T: cur.Type().Elem}
	}
	if len(conds) == 0 {
		return s
	}
	c := conds[0]
	for _, x := range conds[1:] {
		c = &Bin{Op: "und", L: c, R: x, T: TBool}
	}
	return &If{Cond: c, Then: []Stmt{s}}
}

func (g *G) printStmt(e Expr) Stmt { return &Print{X: e} }

// printAll emits prints that expose the whole value of a variable
func (g *G) printVar(v varInfo) []Stmt {
	ref := &Ref{Name: v.Name, T: v.T}
	switch {
	case Printable(v.T):
		return []Stmt{&Print{X: ref}}
	case v.T.K == KStruct:
		var out []Stmt
		for _, f := range v.T.S.Fields {
			if Printable(f.T) {
				out = append(out, &Print{X: &FieldGet{X: ref, Name: f.Name, T: f.T}})
			}
		}
		return out
	case v.T.K == KList && v.T.Elem.K == KStruct:
		out := []Stmt{&Print{X: &Un{Op: "len", X: ref, T: TZahl}}}
		ev := g.name("e")
		var body []Stmt
		for _, f := range v.T.Elem.S.Fields {
			if Printable(f.T) {
				body = append(body, &Print{X: &FieldGet{X: &Ref{Name: ev, T: v.T.Elem}, Name: f.Name, T: f.T}})
			}
		}
		if len(body) > 0 {
			out = append(out, &ForEach{Var: ev, ElemT: v.T.Elem, Coll: ref, Body: body})
		}
		return out
	}
	return nil
}

func (g *G) block(n int) []Stmt {
	g.push()
	defer g.pop()
	var out []Stmt
	for i := 0; i < n; i++ {
		out = append(out, g.stmt()...)
	}
	if len(out) == 0 {
		out = append(out, &Print{X: &Lit{T: TText, S: "leer"}})
	}
	return out
}

func (g *G) stmt() []Stmt {
	g.stmtsOut++
	d := g.cfg.MaxDepth
	budgetLeft := g.stmtsOut < g.cfg.MaxStmts*3
	k := g.intn("stmt", 0, 19)
	if !budgetLeft && k >= 8 {
		k = k % 8
	}
	switch {
	case k <= 3: // declaration (+ print)
		t := g.anyType("declt")
		name := g.name("v")
		var init Expr
		if t.K == KList && t.Elem.K != KList && g.chance("repeat-init", 15) {
			init = &Repeat{T: t, N: smallZahl(g, "rep-n", 0, 4), X: g.Expr(t.Elem, d-1)}
			g.feat("repeatlist:" + eqClass(t))
		} else if t.IsNumeric() && g.chance("numeric-conv-init", 30) {
			// initialiser of another numeric type: implicit conversion
			ft := pick(g.t, []*Type{TZahl, TKomma, TByte}, "initfrom")
			if ft == TKomma && t != TKomma {
				init = g.smallKomma(d)
				if t == TByte {
					init = &Lit{T: TKomma, F: pick(g.t, []float64{0, 0.5, 2.5, 100.25, 255, 200.75}, "kb2")}
				}
			} else {
				init = g.Expr(ft, d)
			}
			g.feat("init-conv:" + ft.Src() + "->" + t.Src())
		} else {
			init = g.Expr(t, d)
		}
		g.declare(varInfo{Name: name, T: t})
		out := []Stmt{&VarDecl{Name: name, T: t, Init: init}}
		if g.cfg.PrintHeavy || g.chance("print-decl", 60) {
			out = append(out, g.printVar(varInfo{Name: name, T: t})...)
		}
		return out
	case k <= 5: // print an expression
		t := g.anyType("printt")
		if !Printable(t) {
			t = TZahl
		}
		return []Stmt{&Print{X: g.Expr(t, d)}}
	case k <= 8: // assignment
		l, ok := g.lvalue()
		if !ok {
			return []Stmt{&Print{X: g.Expr(TZahl, d)}}
		}
		var x Expr
		if l.T.IsNumeric() && g.chance("assign-conv", 30) {
			ft := pick(g.t, []*Type{TZahl, TByte}, "assignfrom")
			x = g.Expr(ft, d)
			g.feat("assign-conv:" + ft.Src() + "->" + l.T.Src())
		} else {
			x = g.Expr(l.T, d)
		}
		g.feat("assign:" + eqClass(l.T))
		s := guardStmt(l, &Assign{Target: l, X: x})
		out := []Stmt{s}
		out = append(out, g.printVar(varInfo{Name: l.Root, T: l.RT})...)
		return out
	case k == 9: // compound assignment
		vs := g.vars(func(v varInfo) bool { return !v.Frozen && (v.T.IsNumeric() || v.T == TBool) })
		if len(vs) == 0 {
			return []Stmt{&Print{X: g.Expr(TBool, d)}}
		}
		v := pick(g.t, vs, "cv")
		l := LValue{Root: v.Name, RT: v.T, T: v.T}
		var s Stmt
		if v.T == TBool {
			s = &Compound{Op: "negiere", Target: l}
			g.feat("compound:negiere")
		} else {
			op := pick(g.t, []string{"erhoehe", "verringere", "vervielfache", "teile"}, "cop")
			xt := pick(g.t, []*Type{TZahl, TByte, TKomma}, "cxt")
			var x Expr
			if xt == TKomma {
				x = &Lit{T: TKomma, F: pick(g.t, []float64{0.5, 2, 2.5, 4, -1.5}, "ck")}
				if v.T != TKomma && (op != "teile") {
					x = &Lit{T: TKomma, F: pick(g.t, []float64{0.5, 2, 2.5}, "ck2")}
				}
			} else if op == "teile" {
				x = g.nonZero(xt)
			} else {
				x = g.Expr(xt, 1)
			}
			if v.T == TByte && (xt == TKomma || op == "teile") {
				// Byte target with Kommazahl arithmetic: conversion back may leave 0..255 -> keep values small and positive
				x = &Lit{T: TZahl, I: int64(g.intn("cbyte", 1, 3))}
			}
			s = &Compound{Op: op, Target: l, X: x}
			g.feat("compound:" + op + ":" + v.T.Src() + "," + x.Type().Src())
		}
		return append([]Stmt{s}, g.printVar(v)...)
	case k == 10: // if
		n := g.intn("if-n", 1, 3)
		s := &If{Cond: g.Expr(TBool, d), Then: g.block(n)}
		for i := g.intn("elifs", 0, 2); i > 0; i-- {
			s.Elifs = append(s.Elifs, Elif{Cond: g.Expr(TBool, d), Body: g.block(g.intn("elif-n", 1, 2))})
			g.feat("if:wenn-aber")
		}
		if g.chance("else", 50) {
			s.Else = g.block(g.intn("else-n", 1, 2))
		}
		g.feat("if")
		return []Stmt{s}
	case k == 11: // while with dedicated counter
		c := g.name("w")
		g.declare(varInfo{Name: c, T: TZahl, Frozen: true})
		cond := Expr(&Bin{Op: "groesser", L: &Ref{Name: c, T: TZahl}, R: &Lit{T: TZahl, I: 0}, T: TBool})
		if g.chance("while-extra-cond", 30) {
			cond = &Bin{Op: "und", L: cond, R: g.Expr(TBool, 1), T: TBool}
		} else if g.cfg.Bias == "heap" && g.chance("while-heap-cond", 50) {
			// a condition that creates temporaries on every evaluation
			ht := pick(g.t, []*Type{TText, ListOf(TZahl), ListOf(TText)}, "whct")
			extra := &Bin{Op: pick(g.t, []string{"gleich", "ungleich"}, "whop"), L: g.heapTemp(ht), R: g.heapTemp(ht), T: TBool}
			cond = &Bin{Op: pick(g.t, []string{"und", "oder"}, "whjoin"), L: extra, R: cond, T: TBool}
			if b := cond.(*Bin); b.Op == "oder" { // keep termination: (extra oder wahr-ish) would not terminate
				b.Op = "und"
				b.L = &Bin{Op: "oder", L: extra, R: &Lit{T: TBool, B: true}, T: TBool}
			}
			g.feat("loop-cond:temporaries")
		}
		g.loop++
		body := append([]Stmt{&Compound{Op: "verringere", Target: LValue{Root: c, RT: TZahl, T: TZahl}, X: &Lit{T: TZahl, I: 1}}}, g.block(g.intn("while-n", 1, 3))...)
		g.loop--
		g.feat("while")
		if g.chance("do-while", 30) {
			g.feat("do-while")
			return []Stmt{&VarDecl{Name: c, T: TZahl, Init: smallZahl(g, "wcount", 0, 4)}, &DoWhile{Body: body, Cond: cond}}
		}
		return []Stmt{&VarDecl{Name: c, T: TZahl, Init: smallZahl(g, "wcount", 0, 4)}, &While{Cond: cond, Body: body}}
	case k == 12: // repeat
		g.loop++
		body := g.block(g.intn("rep-n", 1, 2))
		g.loop--
		var n Expr = smallZahl(g, "repcount", 0, 3)
		if g.chance("rep-byte", 25) {
			n = &Lit{T: TByte, I: int64(g.intn("repcountb", 0, 3))}
			g.feat("repeat:byte-count")
		}
		g.feat("repeat")
		return []Stmt{&RepeatN{N: n, Body: body}}
	case k == 13: // counting for
		ct := pick(g.t, []*Type{TZahl, TZahl, TZahl, TKomma, TByte}, "fort")
		v := g.name("i")
		s := &ForCount{Var: v, T: ct}
		switch ct {
		case TKomma:
			s.From = &Lit{T: TKomma, F: pick(g.t, []float64{0, 0.5, 1, 2.5}, "ff")}
			s.To = &Lit{T: TKomma, F: pick(g.t, []float64{0, 1, 2, 3.5, -1}, "ft")}
			if g.chance("fstep", 60) {
				s.Step = &Lit{T: TKomma, F: pick(g.t, []float64{0.5, 1, 1.5, -0.5, -1}, "fs")}
			}
		case TByte:
			s.From = &Lit{T: TZahl, I: int64(g.intn("bf", 0, 3))}
			s.To = &Lit{T: TZahl, I: int64(g.intn("bt", 0, 5))}
			if g.chance("bstep", 40) {
				s.Step = &Lit{T: TZahl, I: int64(g.intn("bs", 1, 3))}
			}
		default:
			s.From = smallZahl(g, "zf", -2, 4)
			s.To = smallZahl(g, "zt", -3, 6)
			if g.chance("to-byte", 20) {
				s.To = &Lit{T: TByte, I: int64(g.intn("ztb", 0, 6))}
				g.feat("for:byte-bound")
			}
			if g.chance("zstep", 50) {
				s.Step = &Lit{T: TZahl, I: pick(g.t, []int64{1, 2, 3, -1, -2}, "zs")}
			}
			if g.cfg.Bias == "heap" && g.chance("for-heap-bound", 50) {
				// end value / step computed from temporaries
				ht := pick(g.t, []*Type{TText, ListOf(TZahl), ListOf(TText)}, "fhbt")
				s.To = &Un{Op: "len", X: g.heapTemp(ht), T: TZahl}
				if g.chance("for-heap-step", 30) {
					s.Step = &Bin{Op: "plus", L: &Un{Op: "len", X: g.heapTemp(ht), T: TZahl}, R: &Lit{T: TZahl, I: 1}, T: TZahl}
				}
				g.feat("loop-bound:temporaries")
			}
		}
		g.push()
		g.declare(varInfo{Name: v, T: ct, Frozen: true})
		g.loop++
		s.Body = g.block(g.intn("for-n", 1, 3))
		if g.chance("print-counter", 60) {
			s.Body = append([]Stmt{&Print{X: &Ref{Name: v, T: ct}}}, s.Body...)
		}
		if g.inFunc != nil && g.chance("for-early-return", 25) {
			var r Stmt = &Return{}
			if g.inFunc.Ret != nil {
				r = &Return{X: g.Expr(g.inFunc.Ret, d)}
			}
			s.Body = append(s.Body, &If{Cond: g.Expr(TBool, 1), Then: []Stmt{r}})
			g.feat("early-return")
			g.feat("early-return:inside-for")
		}
		g.loop--
		g.pop()
		g.feat("for:" + ct.Src())
		return []Stmt{s}
	case k == 14: // for each
		ct := pick(g.t, []*Type{TText, ListOf(TZahl), ListOf(TText), ListOf(TKomma), ListOf(TBool), ListOf(TChar), ListOf(TByte)}, "eacht")
		if g.cfg.Structs && len(g.prog.Structs) > 0 && g.chance("each-struct", 20) {
			ct = ListOf(g.prog.Structs[0].Type())
		}
		et := TChar
		if ct.K == KList {
			et = ct.Elem
		}
		v := g.name("e")
		s := &ForEach{Var: v, ElemT: et, Coll: g.Expr(ct, d)}
		g.push()
		g.declare(varInfo{Name: v, T: et})
		if g.chance("with-index", 40) {
			s.Index = g.name("ix")
			g.declare(varInfo{Name: s.Index, T: TZahl, Frozen: true})
			g.feat("foreach:index")
		}
		g.loop++
		s.Body = g.block(g.intn("each-n", 1, 2))
		s.Body = append(g.printVar(varInfo{Name: v, T: et}), s.Body...)
		if g.inFunc != nil && g.chance("each-early-return", 35) {
			// leave the function from inside the loop (the loop variable and the collection copy are live)
			var r Stmt = &Return{}
			if g.inFunc.Ret != nil {
				r = &Return{X: g.Expr(g.inFunc.Ret, d)}
			}
			s.Body = append(s.Body, &If{Cond: g.Expr(TBool, 1), Then: []Stmt{r}})
			g.feat("early-return")
			g.feat("early-return:inside-foreach")
		} else if g.chance("each-break", 20) {
			s.Body = append(s.Body, &If{Cond: g.Expr(TBool, 1), Then: []Stmt{&Break{}}})
			g.feat("break")
		}
		g.loop--
		g.pop()
		g.feat("foreach:" + eqClass(ct))
		return []Stmt{s}
	case k == 15: // break / continue
		if g.loop > 0 {
			var inner Stmt = &Break{}
			if g.chance("continue", 50) {
				inner = &Continue{}
				g.feat("continue")
			} else {
				g.feat("break")
			}
			return []Stmt{&If{Cond: g.Expr(TBool, d), Then: []Stmt{inner}}}
		}
		return []Stmt{&Print{X: g.Expr(TText, d)}}
	case k == 16: // call statement / expression
		var cands []*Func
		for _, f := range g.funcs {
			if f != g.inFunc {
				cands = append(cands, f)
			}
		}
		if len(cands) == 0 {
			return []Stmt{&Print{X: g.Expr(TKomma, d)}}
		}
		f := pick(g.t, cands, "cs")
		c := g.mkCall(f, d-1)
		if c == nil {
			return []Stmt{&Print{X: g.Expr(TZahl, d)}}
		}
		g.feat("call")
		var out []Stmt
		if f.Ret == nil {
			out = append(out, &CallStmt{C: c})
		} else if Printable(f.Ret) {
			out = append(out, &Print{X: c})
		} else {
			name := g.name("v")
			g.declare(varInfo{Name: name, T: f.Ret})
			out = append(out, &VarDecl{Name: name, T: f.Ret, Init: c})
			out = append(out, g.printVar(varInfo{Name: name, T: f.Ret})...)
		}
		// show the effect on Referenz arguments
		for i, p := range f.Params {
			if p.Ref {
				switch a := c.Args[i].(type) {
				case *Ref:
					out = append(out, g.printVar(varInfo{Name: a.Name, T: p.T})...)
				case *LRef:
					out = append(out, g.printVar(varInfo{Name: a.L.Root, T: a.L.RT})...)
				}
			}
		}
		return out
	case k == 17: // bare block
		g.feat("block")
		return []Stmt{&Block{Body: g.block(g.intn("blk-n", 1, 3))}}
	case k == 18 && g.inFunc != nil: // early return
		g.feat("early-return")
		var r Stmt = &Return{}
		if g.inFunc.Ret != nil {
			r = &Return{X: g.Expr(g.inFunc.Ret, d)}
		}
		return []Stmt{&If{Cond: g.Expr(TBool, d), Then: []Stmt{r}}}
	default:
		t := g.anyType("pt")
		if !Printable(t) {
			t = TText
		}
		return []Stmt{&Print{X: g.Expr(t, d)}}
	}
}

// forceCall declares fresh variables for the Referenz parameters and calls f, printing result and Referenz arguments.
func (g *G) forceCall(f *Func) []Stmt {
	var out []Stmt
	var valVars []varInfo
	c := &Call{F: f}
	shared := ""
	for _, p := range f.Params {
		if p.Ref {
			// sometimes reuse one variable for two Referenz parameters of the same type / for a value parameter
			if shared != "" && g.chance("share-ref", 25) {
				if vs := g.vars(func(v varInfo) bool { return v.Name == shared && v.T == p.T }); len(vs) == 1 {
					c.Args = append(c.Args, &Ref{Name: shared, T: p.T})
					g.feat("call:ref+ref:sameVar")
					continue
				}
			}
			name := g.name("r")
			g.declare(varInfo{Name: name, T: p.T})
			out = append(out, &VarDecl{Name: name, T: p.T, Init: g.lit(p.T)})
			c.Args = append(c.Args, &Ref{Name: name, T: p.T})
			shared = name
			g.feat("call:ref:" + eqClass(p.T))
		} else {
			if shared != "" && g.chance("share-val", 25) {
				if vs := g.vars(func(v varInfo) bool { return v.Name == shared && v.T == p.T }); len(vs) == 1 {
					c.Args = append(c.Args, &Ref{Name: shared, T: p.T})
					g.feat("call:val+ref:sameVar")
					continue
				}
			}
			if !p.T.IsPrim() && g.chance("val-arg-as-variable", 65) {
				// pass a variable by value and print it after the call: the callee must not be able to change it
				name := g.name("a")
				g.declare(varInfo{Name: name, T: p.T})
				out = append(out, &VarDecl{Name: name, T: p.T, Init: g.lit(p.T)})
				c.Args = append(c.Args, &Ref{Name: name, T: p.T})
				valVars = append(valVars, varInfo{Name: name, T: p.T})
				shared = name
				g.feat("call:val-variable:" + eqClass(p.T))
				continue
			}
			c.Args = append(c.Args, g.Expr(p.T, g.cfg.MaxDepth-1))
			g.feat("call:val:" + eqClass(p.T))
		}
	}
	g.feat("call")
	defer func() {}()
	if f.Ret == nil {
		out = append(out, &CallStmt{C: c})
	} else if Printable(f.Ret) {
		out = append(out, &Print{X: c})
	} else {
		name := g.name("v")
		g.declare(varInfo{Name: name, T: f.Ret})
		out = append(out, &VarDecl{Name: name, T: f.Ret, Init: c})
		out = append(out, g.printVar(varInfo{Name: name, T: f.Ret})...)
	}
	for i, p := range f.Params {
		if p.Ref {
			out = append(out, g.printVar(varInfo{Name: c.Args[i].(*Ref).Name, T: p.T})...)
		}
	}
	for _, v := range valVars {
		out = append(out, g.printVar(v)...)
	}
	return out
}

var aliasWords = []string{"berechne", "mache", "nimm", "wandle", "pruefe", "sammle", "zeige"}

func (g *G) genFunc(i int) *Func {
	f := &Func{Name: fmt.Sprintf("f%d", i)}
	np := g.intn("nparams", 0, 3)
	f.Words = []string{fmt.Sprintf("%s%d", pick(g.t, aliasWords, "aw"), i)}
	g.push()
	for j := 0; j < np; j++ {
		p := Param{Name: fmt.Sprintf("p%d_%d", i, j), T: g.anyType("pt")}
		p.Ref = g.chance("ref", 30)
		f.Params = append(f.Params, p)
		f.Words = append(f.Words, pick(g.t, []string{"", "", "mit", "und", "dann"}, "sep"))
		g.declare(varInfo{Name: p.Name, T: p.T, IsRef: p.Ref})
	}
	// avoid two adjacent placeholders only separated by nothing being ambiguous with negative literals etc.: fine, args are atomic/parenthesised
	if g.chance("returns", 75) {
		f.Ret = g.anyType("rett")
	}
	g.inFunc = f
	g.funcs = append(g.funcs, f) // visible for the feature bookkeeping only; calls exclude inFunc (no recursion)
	f.Body = g.block(g.intn("fbody", 1, 4))
	if f.Ret != nil {
		f.Body = append(f.Body, &Return{X: g.Expr(f.Ret, g.cfg.MaxDepth)})
	}
	g.inFunc = nil
	g.pop()
	g.feat("func")
	return f
}

func (g *G) genStruct(i int) *Struct {
	s := &Struct{Name: fmt.Sprintf("Kombi%d", i)}
	n := g.intn("nfields", 1, 3)
	for j := 0; j < n; j++ {
		var t *Type
		if g.chance("list-field", 30) {
			t = ListOf(g.scalarType("lft"))
		} else {
			t = g.scalarType("ft")
		}
		s.Fields = append(s.Fields, Field{Name: fmt.Sprintf("feld%d_%d", i, j), T: t})
	}
	return s
}

// Generate draws a whole program.
func Generate(t *rapid.T, cfg Config) (*Program, map[string]int) {
	g := &G{t: t, cfg: cfg, prog: &Program{}, Feat: map[string]int{}}
	if cfg.Structs {
		for i := g.intn("nstructs", 0, 2); i > 0; i-- {
			g.prog.Structs = append(g.prog.Structs, g.genStruct(len(g.prog.Structs)+1))
		}
	}
	g.push()
	nf := g.intn("nfuncs", 0, cfg.Funcs)
	for i := 0; i < nf; i++ {
		g.prog.Funcs = append(g.prog.Funcs, g.genFunc(i+1))
	}
	n := g.intn("nmain", 2, cfg.MaxStmts)
	for i := 0; i < n; i++ {
		g.prog.Main = append(g.prog.Main, g.stmt()...)
		// make sure the generated functions are exercised
		if i < len(g.prog.Funcs) && g.chance("force-call", 85) {
			g.prog.Main = append(g.prog.Main, g.forceCall(g.prog.Funcs[i])...)
		}
	}
	g.pop()
	return g.prog, g.Feat
}
