// Package gen: the harness's own typed program representation of DDP's core language
// (independent of src/ast), a printer to German DDP source and rapid generators.
package gen

import "fmt"

type Kind int

const (
	KZahl Kind = iota
	KKomma
	KByte
	KBool
	KChar
	KText
	KList
	KStruct
)

type Type struct {
	K    Kind
	Elem *Type   // list element
	S    *Struct // Kombination
}

type Field struct {
	Name string
	T    *Type
}

type Struct struct {
	Name   string
	Fields []Field
	typ    *Type
}

var (
	TZahl  = &Type{K: KZahl}
	TKomma = &Type{K: KKomma}
	TByte  = &Type{K: KByte}
	TBool  = &Type{K: KBool}
	TChar  = &Type{K: KChar}
	TText  = &Type{K: KText}
	lists  = map[*Type]*Type{}
)

var Prims = []*Type{TZahl, TKomma, TByte, TBool, TChar, TText}

func ListOf(t *Type) *Type {
	if l, ok := lists[t]; ok {
		return l
	}
	l := &Type{K: KList, Elem: t}
	lists[t] = l
	return l
}

func (s *Struct) Type() *Type {
	if s.typ == nil {
		s.typ = &Type{K: KStruct, S: s}
	}
	return s.typ
}

func (t *Type) IsNumeric() bool { return t.K == KZahl || t.K == KKomma || t.K == KByte }
func (t *Type) IsPrim() bool    { return t.K <= KChar }

// Src is the type's spelling in a declaration position ("Die Zahlen Liste x").
func (t *Type) Src() string {
	switch t.K {
	case KZahl:
		return "Zahl"
	case KKomma:
		return "Kommazahl"
	case KByte:
		return "Byte"
	case KBool:
		return "Wahrheitswert"
	case KChar:
		return "Buchstabe"
	case KText:
		return "Text"
	case KStruct:
		return t.S.Name
	case KList:
		switch t.Elem.K {
		case KZahl:
			return "Zahlen Liste"
		case KKomma:
			return "Kommazahlen Liste"
		case KChar:
			return "Buchstaben Liste"
		default:
			return t.Elem.Src() + " Liste"
		}
	}
	panic("bad type")
}

// feminine grammatical gender?
func (t *Type) Fem() bool { return t.K == KZahl || t.K == KKomma || t.K == KList }

func (t *Type) Article() string { // nominative, for variable declarations
	if t.Fem() {
		return "Die"
	}
	return "Der"
}
func (t *Type) Dative() string { // "von einer/einem"
	if t.Fem() {
		return "einer"
	}
	return "einem"
}
func (t *Type) Accusative() string { // return type "gibt eine/einen ... zurück"
	if t.Fem() {
		return "eine"
	}
	return "einen"
}

// spelling after an article that declines the noun (einen Buchstaben / jeden Buchstaben / einem Buchstaben)
func (t *Type) SrcDeclined() string {
	if t.K == KChar {
		return "Buchstaben"
	}
	return t.Src()
}

// ParamSrc is the spelling in a parameter list, with or without Referenz.
func (t *Type) ParamSrc(ref bool) string {
	if !ref {
		return t.Src()
	}
	switch t.K {
	case KZahl:
		return "Zahlen Referenz"
	case KKomma:
		return "Kommazahlen Referenz"
	case KChar:
		return "Buchstaben Referenz"
	case KList:
		return t.Src() + "n Referenz"
	}
	return t.Src() + " Referenz"
}

func (t *Type) String() string { return t.Src() }

// ---------------------------------------------------------------- expressions

type Expr interface{ Type() *Type }

type (
	Lit struct { // primitive / Text literal
		T *Type
		I int64
		F float64
		B bool
		C rune
		S string
	}
	ListLit struct {
		T     *Type
		Elems []Expr
	} // eine Liste, die aus ... besteht (non-empty)
	EmptyList struct{ T *Type } // eine leere X Liste
	Repeat    struct {
		T    *Type
		N, X Expr
	} // N Mal X  (only as initialiser of a list variable)
	Ref struct {
		Name string
		T    *Type
	}
	Un struct {
		Op string
		X  Expr
		T  *Type
	}
	Bin struct {
		Op   string
		L, R Expr
		T    *Type
	}
	Between struct{ X, A, B Expr }
	Falls   struct{ Then, Cond, Else Expr }
	Cast    struct {
		X Expr
		T *Type
	}
	Slice     struct{ X, From, To Expr }
	SliceTo   struct{ X, N Expr }
	SliceFrom struct{ X, N Expr }
	FieldGet  struct {
		X    Expr
		Name string
		T    *Type
	}
	Call struct {
		F    *Func
		Args []Expr
	}
	StructLit struct {
		S    *Struct
		Args []Expr
	} // all fields, in declaration order
	DefaultOf struct{ T *Type }
	LRef      struct{ L LValue } // an element/field location used as Referenz argument
)

func (e *Lit) Type() *Type       { return e.T }
func (e *ListLit) Type() *Type   { return e.T }
func (e *EmptyList) Type() *Type { return e.T }
func (e *Repeat) Type() *Type    { return e.T }
func (e *Ref) Type() *Type       { return e.T }
func (e *Un) Type() *Type        { return e.T }
func (e *Bin) Type() *Type       { return e.T }
func (e *Between) Type() *Type   { return TBool }
func (e *Falls) Type() *Type     { return e.Then.Type() }
func (e *Cast) Type() *Type      { return e.T }
func (e *Slice) Type() *Type     { return e.X.Type() }
func (e *SliceTo) Type() *Type   { return e.X.Type() }
func (e *SliceFrom) Type() *Type { return e.X.Type() }
func (e *FieldGet) Type() *Type  { return e.T }
func (e *Call) Type() *Type      { return e.F.Ret }
func (e *StructLit) Type() *Type { return e.S.Type() }
func (e *DefaultOf) Type() *Type { return e.T }
func (e *LRef) Type() *Type      { return e.L.T }

// ---------------------------------------------------------------- statements

type Step struct {
	Index Expr   // an der Stelle <Index>
	Field string // <Field> von
}

// LValue: a variable, or an element / field path into it.
type LValue struct {
	Root string
	RT   *Type // type of the root variable
	Path []Step
	T    *Type // type of the designated location
}

type Stmt interface{ stmt() }

type (
	VarDecl struct {
		Name       string
		T          *Type
		Init       Expr
		BadArticle bool
	} // BadArticle: fault injection (wrong grammatical gender)
	Raw    struct{ Text string } // verbatim source lines (fault injection, preludes)
	Assign struct {
		Target LValue
		X      Expr
		Alt    bool
	} // Alt: "x ist <literal>" spelling is not used; Alt selects "Speichere das Ergebnis von"
	Compound struct {
		Op     string
		Target LValue
		X      Expr
	} // erhoehe verringere vervielfache teile negiere
	If struct {
		Cond  Expr
		Then  []Stmt
		Elifs []Elif
		Else  []Stmt // nil = none
	}
	While struct {
		Cond Expr
		Body []Stmt
	}
	DoWhile struct {
		Body []Stmt
		Cond Expr
	}
	RepeatN struct {
		N    Expr
		Body []Stmt
	}
	ForCount struct {
		Var            string
		T              *Type
		From, To, Step Expr // Step may be nil
		Body           []Stmt
	}
	ForEach struct {
		Var   string
		ElemT *Type
		Index string // "" = none
		Coll  Expr
		Body  []Stmt
	}
	Break    struct{}
	Continue struct{}
	Return   struct{ X Expr } // X nil: Verlasse die Funktion
	Print    struct{ X Expr } // Schreibe X auf eine Zeile
	CallStmt struct{ C *Call }
	Block    struct{ Body []Stmt }
)

type Elif struct {
	Cond Expr
	Body []Stmt
}

func (*VarDecl) stmt()  {}
func (*Raw) stmt()      {}
func (*Assign) stmt()   {}
func (*Compound) stmt() {}
func (*If) stmt()       {}
func (*While) stmt()    {}
func (*DoWhile) stmt()  {}
func (*RepeatN) stmt()  {}
func (*ForCount) stmt() {}
func (*ForEach) stmt()  {}
func (*Break) stmt()    {}
func (*Continue) stmt() {}
func (*Return) stmt()   {}
func (*Print) stmt()    {}
func (*CallStmt) stmt() {}
func (*Block) stmt()    {}

type Param struct {
	Name string
	T    *Type
	Ref  bool
}

type Func struct {
	Name   string
	Params []Param
	Ret    *Type // nil = nichts
	Body   []Stmt
	Words  []string // alias: Words[0] <p0> Words[1] <p1> ... ; len(Words) == len(Params)+1, Words[0] non-empty
	InMain bool     // ProgramSplit keeps it in the main module (it uses the globals of main)
}

// WrapMain moves the statements of main into a parameterless function that main calls: the holders become local
// variables of a function. Globals take other paths in the compiler (an argument that is a global is always
// copied, locals may be passed without a copy at -O 2).
func WrapMain(p *Program) {
	f := &Func{Name: "hauptteil", Body: p.Main, Words: []string{"starte den hauptteil"}, InMain: true}
	p.Funcs = append(p.Funcs, f)
	p.Main = []Stmt{&CallStmt{C: &Call{F: f}}}
}

type Program struct {
	Prelude []Stmt // global statements printed before the functions (constants, globals used by functions)
	Structs []*Struct
	Funcs   []*Func
	Main    []Stmt
}

func (f *Func) String() string { return fmt.Sprintf("func %s/%d", f.Name, len(f.Params)) }
