// Package vf is the small framework shared by all checks: environment (seed,
// tier, shard), evidence counters, failure/known-finding bookkeeping, replay.
package vf

import (
	"flag"
	"crypto/sha256"
	"encoding/binary"
	"encoding/json"
	"fmt"
	"os"
	"path/filepath"
	"sort"
	"strconv"
	"sync"
	"testing"
)

func envInt(k string, def int) int {
	if v, err := strconv.Atoi(os.Getenv(k)); err == nil {
		return v
	}
	return def
}

// Seed is VERIF_SEED (default 1, 0 remapped to 1) combined with the shard.
func BaseSeed() uint64 {
	s := envInt("VERIF_SEED", 1)
	if s == 0 {
		s = 1
	}
	if s < 0 {
		s = -s
	}
	return uint64(s)
}
func Tier() string {
	if os.Getenv("VERIF_TIER") == "thorough" {
		return "thorough"
	}
	return "quick"
}
func Thorough() bool      { return Tier() == "thorough" }
func Shard() (k, n int)   { return envInt("VERIF_SHARD", 0), max(1, envInt("VERIF_NSHARDS", 1)) }
func OutDir() string      { return os.Getenv("VERIF_OUT") }
func WorkDir() string     { return os.Getenv("VERIF_WORK") }
func VerifDir() string    { return envStr("VERIF_DIR", "/verif") }
func Repo() string        { return envStr("VERIF_REPO", "/repo") }
func envStr(k, d string) string {
	if v := os.Getenv(k); v != "" {
		return v
	}
	return d
}

// Pick returns q in the quick tier and th in the thorough tier.
func Pick[T any](q, th T) T {
	if Thorough() {
		return th
	}
	return q
}

// Failure is an oracle verdict "property violated on this case".
type Failure struct {
	Signature string          `json:"signature"` // root-cause class (call site / table cell / panic site)
	Detail    string          `json:"detail"`
	Case      json.RawMessage `json:"case"`
}

func NewFailure(sig, detail string, c any) *Failure {
	raw, err := json.Marshal(c)
	if err != nil {
		raw, _ = json.Marshal(fmt.Sprintf("%#v", c))
	}
	return &Failure{Signature: sig, Detail: detail, Case: raw}
}

// Finding is one entry of /verif/known_findings.json.
type Finding struct {
	Property  string `json:"property"`
	ID        string `json:"id"`
	Status    string `json:"status"` // "known" | "fixed"
	Signature string `json:"signature"`
	Witness   string `json:"witness,omitempty"` // path relative to /verif
	What      string `json:"what"`
	RootCause string `json:"root_cause,omitempty"`
	Commit    string `json:"commit,omitempty"`
}

func LoadFindings() []Finding {
	b, err := os.ReadFile(filepath.Join(VerifDir(), "known_findings.json"))
	if err != nil {
		return nil
	}
	var fs []Finding
	if err := json.Unmarshal(b, &fs); err != nil {
		fmt.Fprintln(os.Stderr, "known_findings.json unreadable:", err)
		os.Exit(2)
	}
	return fs
}

// Def describes one check.
type Def struct {
	ID          string
	Level       string // evidence level
	Rule        string
	Assumptions []string
	// Judge re-runs the oracle on a saved case without the PBT library. nil = passed.
	Judge func(raw json.RawMessage) *Failure
}

type shardOut struct {
	Property    string             `json:"property"`
	Shard       int                `json:"shard"`
	Evaluations int64              `json:"evaluations"`
	Counters    map[string]int64   `json:"counters"`
	Samples     []any              `json:"samples"`
	Failures    []*Failure         `json:"failures"`
	KnownHits   map[string]int64   `json:"known_hits"`
	KnownEx     map[string]string  `json:"known_examples"`
	Extra       map[string]any     `json:"extra"`
	Exhaustive  bool               `json:"exhaustive"`
	Rule        string             `json:"rule"`
	Level       string             `json:"level"`
	Assumptions []string           `json:"assumptions"`
	Completed   bool               `json:"completed"`
}

var (
	mu         sync.Mutex
	def        Def
	evals      int64
	counters   = map[string]int64{}
	nontrivial = map[uint64]struct{}{}
	samples    []any
	sampleKeys = map[string]int{}
	failures   []*Failure
	lastFail   *Failure
	knownHits  = map[string]int64{}
	knownEx    = map[string]string{}
	extra      = map[string]any{}
	exhaustive bool
	known      []Finding
)

func hash64(s string) uint64 {
	h := sha256.Sum256([]byte(s))
	return binary.LittleEndian.Uint64(h[:8])
}

// Case records one evaluated case. key identifies the case (distinctness); it is
// counted in distinct_nontrivial only when nontrivial is true.
func Case(key string, nontrivialCase bool, features ...string) {
	mu.Lock()
	defer mu.Unlock()
	evals++
	if nontrivialCase {
		nontrivial[hash64(key)] = struct{}{}
	}
	for _, f := range features {
		counters[f]++
	}
}

// Count increments a named counter (feature histogram, discards, ...).
func Count(name string, n ...int64) {
	mu.Lock()
	defer mu.Unlock()
	d := int64(1)
	if len(n) > 0 {
		d = n[0]
	}
	counters[name] += d
}

// Sample keeps up to perClass samples per class (max 12 in total).
func Sample(class string, v any) {
	mu.Lock()
	defer mu.Unlock()
	if sampleKeys[class] >= 2 || len(samples) >= 12 {
		return
	}
	sampleKeys[class]++
	samples = append(samples, map[string]any{"class": class, "case": v})
}

func SetExtra(k string, v any) { mu.Lock(); extra[k] = v; mu.Unlock() }
func SetExhaustive(b bool)     { mu.Lock(); exhaustive = b; mu.Unlock() }

// TB is the part of testing.TB / *rapid.T that Report needs.
type TB interface {
	Fatalf(format string, args ...any)
	Logf(format string, args ...any)
}

// Report handles an oracle failure: a failure whose signature is listed as a
// *known* finding of this property is counted and the case is treated as
// excluded (returns true = "skip this case"); anything else fails the test.
func Report(t TB, f *Failure) bool {
	if f == nil {
		return false
	}
	mu.Lock()
	for _, k := range known {
		if k.Property == def.ID && k.Status == "known" && k.Signature == f.Signature {
			knownHits[k.ID]++
			if _, ok := knownEx[k.ID]; !ok {
				knownEx[k.ID] = f.Detail
			}
			counters["excluded_known:"+k.ID]++
			mu.Unlock()
			return true
		}
	}
	lastFail = f
	mu.Unlock()
	t.Fatalf("VIOLATION %s [%s]: %s", def.ID, f.Signature, f.Detail)
	return false
}

// IsKnown tells generators whether a signature is currently masked.
func IsKnown(sig string) bool {
	for _, k := range known {
		if k.Property == def.ID && k.Status == "known" && k.Signature == sig {
			return true
		}
	}
	return false
}

// AfterCheck must be called (deferred) by every test function after rapid.Check
// returned: it moves the last (= shrunk) failure into the failure list.
func AfterCheck(t *testing.T) {
	mu.Lock()
	defer mu.Unlock()
	if lastFail != nil {
		failures = append(failures, lastFail)
		lastFail = nil
	} else if t.Failed() {
		failures = append(failures, &Failure{Signature: "harness:test-failed-without-oracle-verdict:" + t.Name(), Detail: "test " + t.Name() + " failed (panic in harness or rapid health error); see shard log"})
	}
}

// Main is called from TestMain.
func Main(m *testing.M, d Def) {
	def = d
	known = LoadFindings()
	if p := os.Getenv("VERIF_REPLAY"); p != "" {
		os.Exit(replay(p))
	}
	os.RemoveAll("testdata/rapid")
	code := m.Run()
	writeShard(code == 0 || len(failures) > 0)
	os.Exit(code)
}

func replay(p string) int {
	st, err := os.Stat(p)
	if err == nil && st.IsDir() {
		p = filepath.Join(p, "case.json")
	}
	raw, err := os.ReadFile(p)
	if err != nil {
		fmt.Fprintln(os.Stderr, "replay:", err)
		return 2
	}
	if def.Judge == nil {
		fmt.Fprintln(os.Stderr, "replay: check has no Judge")
		return 2
	}
	// a replay file is either the bare case or {"signature","detail","case"}
	var wrapped Failure
	if json.Unmarshal(raw, &wrapped) == nil && len(wrapped.Case) > 0 {
		raw = wrapped.Case
	}
	f := def.Judge(raw)
	if f == nil {
		fmt.Println("REPLAY-PASS property=" + def.ID)
		return 0
	}
	fmt.Printf("REPLAY-FAIL property=%s signature=%s\n%s\n", def.ID, f.Signature, f.Detail)
	return 1
}

func writeShard(completed bool) {
	dir := OutDir()
	if dir == "" {
		return
	}
	k, _ := Shard()
	out := shardOut{Property: def.ID, Shard: k, Evaluations: evals, Counters: counters, Samples: samples,
		Failures: failures, KnownHits: knownHits, KnownEx: knownEx, Extra: extra, Exhaustive: exhaustive,
		Rule: def.Rule, Level: def.Level, Assumptions: def.Assumptions, Completed: completed}
	b, _ := json.Marshal(out)
	os.WriteFile(filepath.Join(dir, fmt.Sprintf("shard-%d.json", k)), b, 0o644)
	hs := make([]uint64, 0, len(nontrivial))
	for h := range nontrivial {
		hs = append(hs, h)
	}
	sort.Slice(hs, func(i, j int) bool { return hs[i] < hs[j] })
	buf := make([]byte, 8*len(hs))
	for i, h := range hs {
		binary.LittleEndian.PutUint64(buf[8*i:], h)
	}
	os.WriteFile(filepath.Join(dir, fmt.Sprintf("shard-%d.hashes", k)), buf, 0o644)
}

// Checks sets rapid's case count for the following rapid.Check: q (quick) or th
// (thorough) cases in total over all shards.
func Checks(q, th int) {
	n := Pick(q, th)
	if sc, err := strconv.ParseFloat(os.Getenv("VERIF_SCALE"), 64); err == nil && sc > 0 { // development aid: scale the case count
		n = int(float64(n) * sc)
	}
	_, ns := Shard()
	flag.Set("rapid.checks", strconv.Itoa(max(1, n/ns)))
}

// AddFailure records a violation directly (enumerating checks that must not stop at the first failing cell).
func AddFailure(f *Failure) { mu.Lock(); failures = append(failures, f); mu.Unlock() }

// KnownHit counts a failure whose signature is a listed known finding.
func KnownHit(f *Failure) {
	mu.Lock()
	defer mu.Unlock()
	for _, k := range known {
		if k.Property == def.ID && k.Status == "known" && k.Signature == f.Signature {
			knownHits[k.ID]++
			if _, ok := knownEx[k.ID]; !ok {
				knownEx[k.ID] = f.Detail
			}
			counters["excluded_known:"+k.ID]++
		}
	}
}

// Perm is a seed-determined permutation of 0..n-1 (enumerating checks pick their quick subset with it).
func Perm(n int, seed uint64) []int {
	p := make([]int, n)
	for i := range p {
		p[i] = i
	}
	x := seed*2862933555777941757 + 3037000493 | 1
	for i := n - 1; i > 0; i-- {
		x ^= x << 13
		x ^= x >> 7
		x ^= x << 17
		j := int(x % uint64(i+1))
		p[i], p[j] = p[j], p[i]
	}
	return p
}

// Scale is the development aid VERIF_SCALE (1 if unset).
func Scale() float64 {
	if sc, err := strconv.ParseFloat(os.Getenv("VERIF_SCALE"), 64); err == nil && sc > 0 {
		return sc
	}
	return 1
}

// Evals adds n evaluated cases that are not recorded one by one with Case.
func Evals(n int64) { mu.Lock(); evals += n; mu.Unlock() }
