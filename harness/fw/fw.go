// Package fw runs the frontend in a sacrificial child process (the test binary re-executed with
// VERIF_FWORKER=1): a Go stack overflow, fatal error, runaway memory or hang kills only the child.
package fw

import (
	"bufio"
	"bytes"
	"encoding/binary"
	"encoding/json"
	"fmt"
	"io"
	"os"
	"os/exec"
	"path/filepath"
	"regexp"
	"runtime"
	"runtime/debug"
	"strings"
	"sync"
	"syscall"
	"time"
	"unicode/utf8"

	"github.com/DDP-Projekt/Kompilierer/src/ddperror"
	"github.com/DDP-Projekt/Kompilierer/src/parser"
)

type Request struct {
	Main   string            `json:"main"`             // path of the main file (absolute, or relative to the file tree)
	Source []byte            `json:"source,omitempty"` // if set, parsed instead of the file's content (imports still resolve relative to Main)
	Files  map[string]string `json:"files,omitempty"`  // written to a fresh directory; Main is then relative to it
	Repeat int               `json:"repeat,omitempty"` // number of independent parses (default 1)
}

type Diag struct {
	Code        int    `json:"code"`
	Level       int    `json:"level"`
	File        string `json:"file"`
	SL, SC      uint
	EL, EC      uint
	Msg         string `json:"msg"`
	RangeOK     bool   `json:"range_ok"`
	RangeWhy    string `json:"range_why,omitempty"`
	RenderPanic string `json:"render_panic,omitempty"`
}

func (d Diag) IsError() bool { return d.Level == int(ddperror.LEVEL_ERROR) }
func (d Diag) String() string {
	return fmt.Sprintf("(%04d) L%d %s %d:%d-%d:%d %s", d.Code, d.Level, d.File, d.SL, d.SC, d.EL, d.EC, d.Msg)
}

type Run struct {
	Err       string  `json:"err,omitempty"`
	Panic     string  `json:"panic,omitempty"`
	PanicSite string  `json:"panic_site,omitempty"`
	Faulty    bool    `json:"faulty"`
	HasModule bool    `json:"has_module"`
	Diags     []Diag  `json:"diags"`
	Millis    float64 `json:"ms"`
}

func (r Run) Errors() (n int) {
	for _, d := range r.Diags {
		if d.IsError() {
			n++
		}
	}
	return
}

type Response struct {
	Runs []Run `json:"runs"`
}

// ---------------------------------------------------------------- worker side

// ServeIfWorker must be the first call in TestMain.
func ServeIfWorker() {
	if os.Getenv("VERIF_FWORKER") != "1" {
		return
	}
	go func() { // memory watchdog: "unbounded memory growth" becomes a distinguishable death
		var ms runtime.MemStats
		for {
			time.Sleep(200 * time.Millisecond)
			runtime.ReadMemStats(&ms)
			if ms.Sys > 3<<30 {
				fmt.Fprintf(os.Stderr, "VERIF-OOM: worker memory %d MiB exceeds 3 GiB\n", ms.Sys>>20)
				os.Exit(97)
			}
		}
	}()
	in := bufio.NewReaderSize(os.Stdin, 1<<20)
	out := bufio.NewWriter(os.Stdout)
	for {
		var n uint32
		if err := binary.Read(in, binary.LittleEndian, &n); err != nil {
			os.Exit(0)
		}
		buf := make([]byte, n)
		if _, err := io.ReadFull(in, buf); err != nil {
			os.Exit(0)
		}
		var req Request
		if err := json.Unmarshal(buf, &req); err != nil {
			fmt.Fprintln(os.Stderr, "VERIF-WORKER bad request:", err)
			os.Exit(96)
		}
		resp := Handle(req)
		b, _ := json.Marshal(resp)
		binary.Write(out, binary.LittleEndian, uint32(len(b)))
		out.Write(b)
		out.Flush()
	}
}

var frameRe = regexp.MustCompile(`(?m)^\s+(\S*/src/[^\s:]+:\d+)`)

func panicSite(stack string) string {
	for _, m := range frameRe.FindAllStringSubmatch(stack, -1) {
		f := m[1]
		if strings.Contains(f, "/parser/error.go") || strings.Contains(f, "/parser/interface.go") || strings.Contains(f, "/runtime/") {
			continue
		}
		if i := strings.Index(f, "/src/"); i >= 0 {
			return f[i+1:]
		}
	}
	return "?"
}

func firstLine(s string) string {
	s = strings.TrimSpace(s)
	if i := strings.Index(s, "\nStackTrace"); i >= 0 {
		s = s[:i]
	}
	if i := strings.Index(s, "\nWraps"); i >= 0 {
		s = s[:i]
	}
	if len(s) > 300 {
		s = s[:300]
	}
	return s
}

// Handle executes a request in this process (used by the worker loop and by replay).
func Handle(req Request) Response {
	dir := ""
	mainPath := req.Main
	if req.Files != nil {
		d, err := os.MkdirTemp("", "verif-fw-")
		if err != nil {
			return Response{Runs: []Run{{Err: "harness: " + err.Error()}}}
		}
		defer os.RemoveAll(d)
		// the tree lives two levels below the temp dir so that generated "../.." style imports stay inside it
		dir = filepath.Join(d, "a", "w")
		os.MkdirAll(dir, 0o755)
		for name, content := range req.Files {
			p := filepath.Join(dir, name)
			if strings.HasSuffix(name, "/") {
				os.MkdirAll(p, 0o755)
				continue
			}
			os.MkdirAll(filepath.Dir(p), 0o755)
			os.WriteFile(p, []byte(content), 0o644)
		}
		mainPath = filepath.Join(dir, req.Main)
	}
	n := req.Repeat
	if n < 1 {
		n = 1
	}
	var resp Response
	for i := 0; i < n; i++ {
		resp.Runs = append(resp.Runs, one(mainPath, req.Source, dir))
	}
	return resp
}

func one(mainPath string, source []byte, dir string) (run Run) {
	start := time.Now()
	var raw []ddperror.Error
	opts := parser.Options{FileName: mainPath, Source: source, ErrorHandler: func(e ddperror.Error) { raw = append(raw, e) }}
	func() {
		defer func() {
			if r := recover(); r != nil {
				st := string(debug.Stack())
				if pe, ok := r.(*parser.ParserError); ok && len(pe.StackTrace) > 0 {
					st = string(pe.StackTrace)
				}
				run.Panic = firstLine(fmt.Sprint(r))
				run.PanicSite = panicSite(st)
			}
		}()
		mod, err := parser.Parse(opts)
		if err != nil {
			run.Err = firstLine(err.Error())
			if pe, ok := err.(*parser.ParserError); ok {
				run.PanicSite = panicSite(string(pe.StackTrace))
			}
		}
		if mod != nil {
			run.HasModule = true
			if mod.Ast != nil {
				run.Faulty = mod.Ast.Faulty
			}
		}
	}()
	run.Millis = float64(time.Since(start).Microseconds()) / 1000
	// judge ranges + renderer for every diagnostic
	texts := map[string][]byte{}
	text := func(path string) ([]byte, bool) {
		if filepath.Clean(path) == filepath.Clean(mainPath) && source != nil {
			return source, true
		}
		if b, ok := texts[path]; ok {
			return b, b != nil
		}
		b, err := os.ReadFile(path)
		if err != nil {
			texts[path] = nil
			return nil, false
		}
		texts[path] = b
		return b, true
	}
	for _, e := range raw {
		d := Diag{Code: int(e.Code), Level: int(e.Level), File: e.File, SL: e.Range.Start.Line, SC: e.Range.Start.Column, EL: e.Range.End.Line, EC: e.Range.End.Column, Msg: firstLine(e.Msg)}
		src, ok := text(e.File)
		if !ok {
			d.RangeOK, d.RangeWhy = false, "diagnostic names file "+e.File+" which cannot be read"
			if !utf8.ValidString(e.File) || e.File == "" {
				d.RangeWhy = "diagnostic names no readable file"
			}
		} else {
			d.RangeOK, d.RangeWhy = RangeInside(src, d.SL, d.SC, d.EL, d.EC)
			func() {
				defer func() {
					if r := recover(); r != nil {
						d.RenderPanic = firstLine(fmt.Sprint(r))
					}
				}()
				ddperror.MakeAdvancedHandler(e.File, src, io.Discard)(e)
			}()
		}
		if dir != "" {
			d.File = strings.TrimPrefix(d.File, dir+"/")
		}
		run.Diags = append(run.Diags, d)
	}
	return run
}

// RangeInside: 1 <= start.line <= end.line <= #lines, columns within 1..len(line)+1 in code points, start <= end.
func RangeInside(src []byte, sl, sc, el, ec uint) (bool, string) {
	lines := strings.Split(string(src), "\n")
	if sl < 1 || el < 1 || int(sl) > len(lines) || int(el) > len(lines) {
		return false, fmt.Sprintf("line %d..%d outside 1..%d", sl, el, len(lines))
	}
	if sl > el || (sl == el && sc > ec) {
		return false, "start after end"
	}
	ls, le := utf8.RuneCountInString(lines[sl-1]), utf8.RuneCountInString(lines[el-1])
	if sc < 1 || int(sc) > ls+1 {
		return false, fmt.Sprintf("start column %d outside 1..%d (line %d has %d code points)", sc, ls+1, sl, ls)
	}
	if ec < 1 || int(ec) > le+1 {
		return false, fmt.Sprintf("end column %d outside 1..%d (line %d has %d code points)", ec, le+1, el, le)
	}
	return true, ""
}

// ---------------------------------------------------------------- client side

type Crash struct {
	Kind   string `json:"kind"` // died | timeout | oom
	Detail string `json:"detail"`
	Site   string `json:"site"`
}

type Worker struct {
	mu     sync.Mutex
	cmd    *exec.Cmd
	in     io.WriteCloser
	out    *bufio.Reader
	stderr *tailBuf
}

type tailBuf struct {
	mu  sync.Mutex
	buf []byte
}

func (t *tailBuf) Write(p []byte) (int, error) {
	t.mu.Lock()
	defer t.mu.Unlock()
	t.buf = append(t.buf, p...)
	if len(t.buf) > 1<<20 { // keep head (first report) and tail
		t.buf = append(t.buf[:256<<10], t.buf[len(t.buf)-(256<<10):]...)
	}
	return len(p), nil
}
func (t *tailBuf) String() string { t.mu.Lock(); defer t.mu.Unlock(); return string(t.buf) }

func (w *Worker) start() error {
	cmd := exec.Command(os.Args[0])
	cmd.Env = append(os.Environ(), "VERIF_FWORKER=1", "GOTRACEBACK=single")
	in, _ := cmd.StdinPipe()
	out, _ := cmd.StdoutPipe()
	w.stderr = &tailBuf{}
	cmd.Stderr = w.stderr
	if err := cmd.Start(); err != nil {
		return err
	}
	w.cmd, w.in, w.out = cmd, in, bufio.NewReaderSize(out, 1<<20)
	return nil
}

func (w *Worker) kill() {
	if w.cmd != nil && w.cmd.Process != nil {
		w.cmd.Process.Kill()
		w.cmd.Wait()
	}
	w.cmd = nil
}

func (w *Worker) Close() { w.mu.Lock(); w.kill(); w.mu.Unlock() }

var goFrameRe = regexp.MustCompile(`(?m)^\s+(\S*/src/(?:parser|scanner|ast|ddptypes|ddperror|token)/[^\s:]+:\d+)`)

func crashSite(stderr string) string {
	// for a stack overflow the repeating frames are what matters: take the first in-repo frame
	if m := goFrameRe.FindStringSubmatch(stderr); m != nil {
		f := m[1]
		if i := strings.Index(f, "/src/"); i >= 0 {
			return f[i+1:]
		}
	}
	return "?"
}

// Call sends one request; a nil Crash means the worker answered.
func (w *Worker) Call(req Request, timeout time.Duration) (*Response, *Crash) {
	w.mu.Lock()
	defer w.mu.Unlock()
	if w.cmd == nil {
		if err := w.start(); err != nil {
			return nil, &Crash{Kind: "harness", Detail: err.Error()}
		}
	}
	b, _ := json.Marshal(req)
	type result struct {
		resp *Response
		err  error
	}
	ch := make(chan result, 1)
	go func() {
		if err := binary.Write(w.in, binary.LittleEndian, uint32(len(b))); err != nil {
			ch <- result{nil, err}
			return
		}
		if _, err := w.in.Write(b); err != nil {
			ch <- result{nil, err}
			return
		}
		var n uint32
		if err := binary.Read(w.out, binary.LittleEndian, &n); err != nil {
			ch <- result{nil, err}
			return
		}
		buf := make([]byte, n)
		if _, err := io.ReadFull(w.out, buf); err != nil {
			ch <- result{nil, err}
			return
		}
		var r Response
		if err := json.Unmarshal(buf, &r); err != nil {
			ch <- result{nil, err}
			return
		}
		ch <- result{&r, nil}
	}()
	select {
	case r := <-ch:
		if r.err == nil {
			return r.resp, nil
		}
		// worker died
		time.Sleep(50 * time.Millisecond)
		w.cmd.Wait()
		se := w.stderr.String()
		w.cmd = nil
		kind := "died"
		if strings.Contains(se, "VERIF-OOM") {
			kind = "oom"
		}
		head := se
		if len(head) > 1500 {
			head = head[:1500]
		}
		detail := firstLineOf(se)
		return nil, &Crash{Kind: kind, Detail: detail + "\n" + head, Site: crashSite(se)}
	case <-time.After(timeout):
		w.cmd.Process.Signal(syscall.SIGQUIT) // goroutine dump
		time.Sleep(300 * time.Millisecond)
		se := w.stderr.String()
		w.kill()
		<-ch
		tail := se
		if len(tail) > 3000 {
			tail = tail[:3000]
		}
		return nil, &Crash{Kind: "timeout", Detail: fmt.Sprintf("no answer within %v\n%s", timeout, tail), Site: crashSite(se)}
	}
}

func firstLineOf(s string) string {
	for _, l := range strings.Split(s, "\n") {
		if strings.Contains(l, "fatal error") || strings.Contains(l, "runtime: goroutine stack exceeds") || strings.Contains(l, "panic:") || strings.Contains(l, "VERIF-OOM") {
			return strings.TrimSpace(l)
		}
	}
	if i := strings.Index(s, "\n"); i > 0 {
		return s[:i]
	}
	return s
}

var _ = bytes.MinRead
