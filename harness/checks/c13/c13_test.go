// C13 — the token stream is a faithful, positioned partition of the source.
package c13

import (
	"encoding/json"
	"fmt"
	"os"
	"path/filepath"
	"sort"
	"strings"
	"testing"
	"unicode/utf8"

	"github.com/DDP-Projekt/Kompilierer/src/ddperror"
	"github.com/DDP-Projekt/Kompilierer/src/scanner"
	"github.com/DDP-Projekt/Kompilierer/src/token"
	"pgregory.net/rapid"

	"verif/vf"
)

type Case struct {
	Src         []byte `json:"src"` // base64 in JSON, so invalid UTF-8 survives
	SrcText     string `json:"src_text,omitempty"`
	Mode        string `json:"mode"` // normal | strict | alias
	AliasLine   uint   `json:"alias_line,omitempty"`
	AliasColumn uint   `json:"alias_column,omitempty"`
	AliasIndent uint   `json:"alias_indent,omitempty"`
}

func TestMain(m *testing.M) {
	vf.Main(m, vf.Def{
		ID:    "C13",
		Level: "exploration",
		Rule: "strings over an alphabet with one representative per lexical class (exhaustive up to a small length, random up to 200 code points incl. whole keywords in all spellings, corpus files, invalid UTF-8), " +
			"in normal, strict-capitalisation and alias mode; oracle = partition walk by reported positions + independent reference lexer (kinds, extents, error yes/no) + indent rule; " +
			"non-trivial = >=2 tokens and >=1 of {multi-byte char, CR, tab, comment, string/char literal, line break inside a token, keyword}; distinct by (mode,source) hash",
		Assumptions: []string{
			"keyword list frozen from the pinned tree is the specification of keyword spellings",
			"ILLEGAL tokens carry a message instead of source text: only their range is checked",
			"Indent of a token that itself spans several lines, and of tokens on a line that starts inside such a token, is not checked",
			"error yes/no agreement is checked in non-strict mode only (capitalisation diagnostics are outside the property)",
		},
		Judge: func(raw json.RawMessage) *vf.Failure {
			var c Case
			if err := json.Unmarshal(raw, &c); err != nil {
				return vf.NewFailure("harness:bad-case", err.Error(), nil)
			}
			f, _ := judge(c)
			return f
		},
	})
}

// ---------------------------------------------------------------- reference lexer

type refTok struct {
	typ        token.TokenType
	start, end int // rune offsets, end exclusive
}

func isDigit(r rune) bool { return '0' <= r && r <= '9' }
func isAlpha(r rune) bool {
	return ('a' <= r && r <= 'z') || ('A' <= r && r <= 'Z') || strings.ContainsRune("ß_äÄöÖüÜ", r)
}
func isBlank(r rune) bool { return r == ' ' || r == '\t' || r == '\r' || r == '\n' }

func refKeyword(word string) token.TokenType {
	if t, ok := frozenKeywords[word]; ok {
		return t
	}
	if t, ok := frozenKeywords[strings.ToLower(word)]; ok {
		return t
	}
	return token.IDENTIFIER
}

// refLex tokenises rs by the stated lexical rules; errs reports whether the rules
// demand at least one diagnostic (unknown escape, malformed char literal, malformed alias parameter).
func refLex(rs []rune, alias bool) (toks []refTok, errs bool) {
	n := len(rs)
	at := func(i int) rune {
		if i < n {
			return rs[i]
		}
		return -1
	}
	i := 0
	for {
		for i < n && isBlank(rs[i]) {
			i++
		}
		if i >= n {
			toks = append(toks, refTok{token.EOF, n, n})
			return
		}
		s := i
		r := rs[i]
		switch {
		case isAlpha(r):
			for i < n && (isAlpha(rs[i]) || isDigit(rs[i])) {
				i++
			}
			toks = append(toks, refTok{refKeyword(string(rs[s:i])), s, i})
		case isDigit(r):
			typ := token.INT
			for i < n && isDigit(rs[i]) {
				i++
			}
			if at(i) == ',' && isDigit(at(i+1)) {
				typ = token.FLOAT
				i++
				for i < n && isDigit(rs[i]) {
					i++
				}
			}
			toks = append(toks, refTok{typ, s, i})
		case r == '"' || r == '\'':
			q := r
			i++
			closed, backslash := false, false
			for i < n {
				if rs[i] == q {
					closed = true
					i++
					break
				}
				if rs[i] == '\\' {
					backslash = true
					e := at(i + 1)
					if e == q || (e >= 0 && strings.ContainsRune(`abnrt\`, e)) {
						i += 2
						continue
					}
					errs = true // unknown escape: reported, backslash taken literally
				}
				i++
			}
			if !closed {
				toks = append(toks, refTok{token.ILLEGAL, s, n})
				i = n
				break
			}
			if q == '"' {
				toks = append(toks, refTok{token.STRING, s, i})
			} else {
				ln := i - s
				if !(ln == 3 || (ln == 4 && backslash)) {
					errs = true
				}
				toks = append(toks, refTok{token.CHAR, s, i})
			}
		case r == '[':
			depth := 1
			i++
			for i < n && depth > 0 {
				if rs[i] == '[' {
					depth++
				} else if rs[i] == ']' {
					depth--
				}
				i++
			}
			toks = append(toks, refTok{token.COMMENT, s, i})
		case r == '.' && at(i+1) == '.' && at(i+2) == '.':
			i += 3
			toks = append(toks, refTok{token.ELIPSIS, s, i})
		case r == '<' && alias:
			i++
			if !isAlpha(at(i)) {
				errs = true
			}
			for i < n && rs[i] != '>' {
				if !(isAlpha(rs[i]) || isDigit(rs[i])) {
					errs = true
				}
				i++
			}
			if i >= n {
				errs = true
			} else {
				i++
			}
			toks = append(toks, refTok{token.ALIAS_PARAMETER, s, i})
		default:
			i++
			typ := token.SYMBOL
			switch r {
			case '-':
				typ = token.NEGATE
			case '.':
				typ = token.DOT
			case ',':
				typ = token.COMMA
			case ':':
				typ = token.COLON
			case '(':
				typ = token.LPAREN
			case ')':
				typ = token.RPAREN
			}
			toks = append(toks, refTok{typ, s, i})
		}
	}
}

// ---------------------------------------------------------------- oracle

type sig = string

func judge(c Case) (*vf.Failure, map[string]bool) {
	feats := map[string]bool{}
	fail := func(s sig, format string, a ...any) (*vf.Failure, map[string]bool) {
		cc := c
		if utf8.Valid(c.Src) {
			cc.SrcText = string(c.Src)
		}
		return vf.NewFailure("C13:"+s, fmt.Sprintf("mode=%s src=%q: ", c.Mode, c.Src)+fmt.Sprintf(format, a...), cc), feats
	}
	nerr := 0
	handler := func(e ddperror.Error) { nerr++ }
	var toks []token.Token
	var err error
	lineOff, colOff := uint(0), uint(0)
	switch c.Mode {
	case "alias":
		al := token.Token{Type: token.STRING, Literal: `"` + string(c.Src) + `"`, Indent: c.AliasIndent,
			Range: token.Range{Start: token.Position{Line: c.AliasLine, Column: c.AliasColumn}, End: token.Position{Line: c.AliasLine, Column: c.AliasColumn + 2}}}
		toks, err = scanner.ScanAlias(al, handler)
		lineOff, colOff = c.AliasLine-1, c.AliasColumn-1
	case "strict":
		toks, err = scanner.Scan(scanner.Options{Source: c.Src, ScannerMode: scanner.ModeStrictCapitalization, ErrorHandler: handler})
	default:
		toks, err = scanner.Scan(scanner.Options{Source: c.Src, ScannerMode: scanner.ModeNone, ErrorHandler: handler})
	}
	if !utf8.Valid(c.Src) {
		feats["invalid-utf8"] = true
		if err == nil || toks != nil {
			return fail("invalid-utf8-accepted", "invalid UTF-8 was not refused (err=%v, %d tokens)", err, len(toks))
		}
		return nil, feats
	}
	if err != nil {
		return fail("valid-utf8-refused", "valid UTF-8 refused: %v", err)
	}
	src := string(c.Src)
	if c.Mode == "alias" {
		// ScanAlias strips one pair of enclosing quotes from the alias literal; a source that itself
		// starts/ends with a quote is therefore a different alias text - generators avoid it.
		if strings.HasPrefix(src, `"`) || strings.HasSuffix(src, `"`) {
			return nil, feats
		}
	}
	rs := []rune(src)
	// line table in rune offsets
	lineStart := []int{0}
	for i, r := range rs {
		if r == '\n' {
			lineStart = append(lineStart, i+1)
		}
	}
	lineLen := func(l int) int { // in code points, without the LF
		if l+1 < len(lineStart) {
			return lineStart[l+1] - 1 - lineStart[l]
		}
		return len(rs) - lineStart[l]
	}
	off := func(p token.Position) (int, bool) {
		if p.Line < 1+lineOff {
			return 0, false
		}
		l := int(p.Line - lineOff - 1)
		col := p.Column
		if l == 0 {
			if col < colOff+1 {
				return 0, false
			}
			col -= colOff
		}
		if l >= len(lineStart) || col < 1 || int(col)-1 > lineLen(l)+1 {
			return 0, false
		}
		o := lineStart[l] + int(col) - 1
		if o > len(rs) {
			return 0, false
		}
		return o, true
	}
	if len(toks) == 0 || toks[len(toks)-1].Type != token.EOF {
		return fail("no-final-eof", "stream does not end in EOF: %v", toks)
	}
	ref, refErr := refLex(rs, c.Mode == "alias")
	prevEnd := 0
	multiLineTokenEndLine := -1 // (0-based) line on which a multi-line token ended
	for i := range toks {
		t := &toks[i]
		so, ok1 := off(t.Range.Start)
		eo, ok2 := off(t.Range.End)
		if !ok1 || !ok2 {
			return fail("position-outside-source", "token %d %s: range %v does not lie in the source", i, t.Type, t.Range)
		}
		if so > eo {
			return fail("start-after-end", "token %d: start after end %v", i, t.Range)
		}
		if so < prevEnd {
			return fail("overlap-or-order", "token %d starts at %d before previous end %d", i, so, prevEnd)
		}
		for _, r := range rs[prevEnd:so] {
			if !isBlank(r) {
				return fail("gap-not-blank", "non-blank %q between tokens %d and %d is covered by no token", r, i-1, i)
			}
		}
		if t.Type == token.EOF {
			if i != len(toks)-1 {
				return fail("eof-not-last", "EOF at index %d of %d", i, len(toks))
			}
			if so != len(rs) || eo != len(rs) {
				return fail("eof-position", "EOF at rune offset %d..%d, source has %d code points (range %v)", so, eo, len(rs), t.Range)
			}
		} else if so == eo {
			return fail("empty-token", "token %d %s is empty", i, t.Type)
		}
		if t.Type != token.ILLEGAL && t.Literal != string(rs[so:eo]) {
			return fail("literal-mismatch", "token %d %s: literal %q but source at %v is %q", i, t.Type, t.Literal, t.Range, string(rs[so:eo]))
		}
		// kinds and extents against the reference lexer
		if i >= len(ref) {
			return fail("kind:extra-token", "scanner produced more tokens than the rules: %d-th is %s %q", i, t.Type, t.Literal)
		}
		if ref[i].typ != t.Type || ref[i].start != so || ref[i].end != eo {
			return fail(fmt.Sprintf("kind:%s-vs-%s", tname(ref[i].typ), tname(t.Type)), "token %d: rules say %s over [%d,%d) = %q, scanner says %s over [%d,%d) = %q",
				i, tname(ref[i].typ), ref[i].start, ref[i].end, string(rs[ref[i].start:ref[i].end]), tname(t.Type), so, eo, string(rs[so:eo]))
		}
		// indent
		sl := int(t.Range.Start.Line - lineOff - 1)
		el := int(t.Range.End.Line - lineOff - 1)
		if c.Mode != "alias" && sl == el && sl != multiLineTokenEndLine && t.Type != token.EOF {
			want := uint(0)
			run := 0
			for _, r := range rs[lineStart[sl]:] {
				if r == ' ' {
					run++
					if run == 4 {
						want++
						run = 0
					}
				} else if r == '\t' {
					want++
					run = 0
				} else if r == '\r' {
					run = 0
				} else {
					break
				}
			}
			if t.Indent != want {
				return fail("indent", "token %d %q on line %d: Indent=%d, rule says %d", i, t.Literal, sl+1, t.Indent, want)
			}
		}
		if el > sl {
			multiLineTokenEndLine = el
			feats["multiline-token"] = true
		}
		prevEnd = eo
		switch t.Type {
		case token.COMMENT:
			feats["comment"] = true
		case token.STRING, token.CHAR:
			feats["literal"] = true
		case token.ILLEGAL:
			feats["illegal"] = true
		case token.IDENTIFIER, token.INT, token.FLOAT, token.SYMBOL, token.EOF, token.ALIAS_PARAMETER:
		default:
			if t.Type < token.DOT {
				feats["keyword"] = true
			}
		}
	}
	if len(ref) != len(toks) {
		return fail("kind:missing-token", "rules give %d tokens, scanner %d", len(ref), len(toks))
	}
	if c.Mode != "strict" {
		if refErr != (nerr > 0) {
			return fail(fmt.Sprintf("error-verdict:rules=%v", refErr), "rules demand a diagnostic: %v, scanner reported %d", refErr, nerr)
		}
	}
	if refErr {
		feats["lexical-error"] = true
	}
	for _, r := range rs {
		switch {
		case r >= 0x80:
			feats["multibyte"] = true
		case r == '\r':
			feats["cr"] = true
		case r == '\t':
			feats["tab"] = true
		}
	}
	feats[fmt.Sprintf("tokens>=2:%v", len(toks) >= 3)] = true
	return nil, feats
}

func tname(t token.TokenType) string {
	switch t {
	case token.ILLEGAL:
		return "ILLEGAL"
	case token.EOF:
		return "EOF"
	case token.IDENTIFIER:
		return "IDENTIFIER"
	case token.ALIAS_PARAMETER:
		return "ALIAS_PARAMETER"
	case token.COMMENT:
		return "COMMENT"
	case token.SYMBOL:
		return "SYMBOL"
	case token.INT:
		return "INT"
	case token.FLOAT:
		return "FLOAT"
	case token.STRING:
		return "STRING"
	case token.CHAR:
		return "CHAR"
	}
	return "KW(" + t.String() + ")"
}

func record(c Case, feats map[string]bool) {
	nt := feats["tokens>=2:true"] && (feats["multibyte"] || feats["cr"] || feats["tab"] || feats["comment"] || feats["literal"] || feats["multiline-token"] || feats["keyword"])
	fl := make([]string, 0, len(feats)+1)
	for f := range feats {
		fl = append(fl, "feat:"+f)
	}
	sort.Strings(fl)
	fl = append(fl, "mode:"+c.Mode)
	vf.Case(c.Mode+"\x00"+string(c.Src), nt, fl...)
	if nt {
		cls := c.Mode
		if feats["multiline-token"] {
			cls += "+multiline"
		}
		vf.Sample(cls, map[string]any{"mode": c.Mode, "src": string(c.Src)})
	}
}

// ---------------------------------------------------------------- generators

var exhaustAlphabet = []rune{'a', 'n', 'A', 'ä', 'ß', '_', '1', ',', '.', ':', '(', ')', '-', '"', '\'', '\\', '[', ']', '<', '>', '!', ' ', '\t', '\r', '\n', '€', '𝄞'}

func allKeywordSpellings() []string {
	var out []string
	for k := range frozenKeywords {
		out = append(out, k, strings.ToUpper(k), strings.ToLower(k), strings.ToUpper(k[:1])+k[1:])
		r, w := utf8.DecodeRuneInString(k)
		out = append(out, strings.ToUpper(string(r))+k[w:], strings.ToLower(string(r))+k[w:])
	}
	sort.Strings(out)
	return out
}

var pieces = func() []string {
	p := []string{}
	for _, r := range exhaustAlphabet {
		p = append(p, string(r))
	}
	p = append(p, "0", "9", "x", "Z", "ö", "Ü", "\r\n", "    ", "  ", "...", "..", "1,5", "12,", ",5", `\n`, `\"`, `\'`, `\\`, `\x`, `"a"`, `'a'`, `'\n'`, `'ab'`, "[[", "]]", "<a>", "<1>", "<>", " ", " ", "é", "ẞ")
	return p
}()

func genIndent(t *rapid.T, sb *strings.Builder) {
	n := rapid.IntRange(0, 10).Draw(t, "nindent")
	for i := 0; i < n; i++ {
		sb.WriteString(rapid.SampledFrom([]string{" ", " ", " ", "  ", "    ", "\t", "\t", "\r"}).Draw(t, "ws"))
	}
}

func genSource(t *rapid.T) string {
	kws := allKeywordSpellings()
	n := rapid.IntRange(0, 60).Draw(t, "n")
	var sb strings.Builder
	lines := rapid.Bool().Draw(t, "line-structured")
	for i := 0; i < n; i++ {
		if lines && (i == 0 || rapid.IntRange(0, 4).Draw(t, "newline") == 0) {
			if i > 0 {
				sb.WriteString("\n")
			}
			genIndent(t, &sb)
		}
		switch rapid.IntRange(0, 9).Draw(t, "kind") {
		case 0, 1:
			sb.WriteString(rapid.SampledFrom(kws).Draw(t, "kw"))
		case 2:
			sb.WriteString(" ")
		default:
			sb.WriteString(rapid.SampledFrom(pieces).Draw(t, "p"))
		}
	}
	return sb.String()
}

func drawMode(t *rapid.T, c *Case) {
	c.Mode = rapid.SampledFrom([]string{"normal", "normal", "strict", "alias"}).Draw(t, "mode")
	if c.Mode == "alias" {
		c.AliasLine = uint(rapid.IntRange(1, 50).Draw(t, "aline"))
		c.AliasColumn = uint(rapid.IntRange(1, 80).Draw(t, "acol"))
		c.AliasIndent = uint(rapid.IntRange(0, 3).Draw(t, "aindent"))
	}
}

func TestRandom(t *testing.T) {
	defer vf.AfterCheck(t)
	vf.Checks(200000, 4000000)
	rapid.Check(t, func(t *rapid.T) {
		c := Case{}
		drawMode(t, &c)
		s := genSource(t)
		if c.Mode == "alias" {
			s = strings.Trim(s, `"`)
		}
		c.Src = []byte(s)
		f, feats := judge(c)
		if vf.Report(t, f) {
			return
		}
		record(c, feats)
	})
}

func TestInvalidUTF8(t *testing.T) {
	defer vf.AfterCheck(t)
	vf.Checks(20000, 400000)
	rapid.Check(t, func(t *rapid.T) {
		b := rapid.SliceOfN(rapid.Byte(), 0, 40).Draw(t, "bytes")
		if rapid.Bool().Draw(t, "splice") {
			s := []byte(genSource(t))
			pos := rapid.IntRange(0, len(s)).Draw(t, "pos")
			bad := rapid.SampledFrom([]string{"\xff", "\xc0\x80", "\xed\xa0\x80", "\xe2\x82", "\xf4\x90\x80\x80", "\x80"}).Draw(t, "bad")
			b = append(append(append([]byte{}, s[:pos]...), bad...), s[pos:]...)
		}
		c := Case{Src: b, Mode: rapid.SampledFrom([]string{"normal", "strict"}).Draw(t, "mode")}
		f, feats := judge(c)
		if vf.Report(t, f) {
			return
		}
		if feats["invalid-utf8"] {
			vf.Case(c.Mode+"\x00"+string(c.Src), true, "feat:invalid-utf8", "mode:"+c.Mode)
			vf.Sample("invalid-utf8", fmt.Sprintf("%q", c.Src))
		} else {
			record(c, feats)
		}
	})
}

// corpus: every .ddp file of the tree, whole and truncated at generated points.
func TestCorpus(t *testing.T) {
	defer vf.AfterCheck(t)
	var files []string
	for _, root := range []string{"lib/stdlib/Duden", "tests/testdata", "examples"} {
		filepath.Walk(filepath.Join(vf.Repo(), root), func(p string, info os.FileInfo, err error) error {
			if err == nil && !info.IsDir() && strings.HasSuffix(p, ".ddp") {
				files = append(files, p)
			}
			return nil
		})
	}
	sort.Strings(files)
	if len(files) == 0 {
		t.Skip("no corpus")
	}
	k, n := vf.Shard()
	for i, p := range files {
		if i%n != k {
			continue
		}
		b, err := os.ReadFile(p)
		if err != nil {
			continue
		}
		for _, mode := range []string{"normal", "strict"} {
			c := Case{Src: b, Mode: mode}
			f, feats := judge(c)
			if vf.Report(t, f) {
				continue
			}
			record(c, feats)
		}
	}
	vf.Checks(8000, 200000)
	rapid.Check(t, func(t *rapid.T) {
		p := rapid.SampledFrom(files).Draw(t, "file")
		b, err := os.ReadFile(p)
		if err != nil {
			t.Skip()
		}
		rs := []rune(string(b))
		lo := rapid.IntRange(0, len(rs)).Draw(t, "lo")
		hi := rapid.IntRange(lo, min(len(rs), lo+400)).Draw(t, "hi")
		c := Case{Src: []byte(string(rs[lo:hi])), Mode: rapid.SampledFrom([]string{"normal", "strict"}).Draw(t, "mode")}
		f, feats := judge(c)
		if vf.Report(t, f) {
			return
		}
		record(c, feats)
	})
}

// exhaustive: all strings up to length L over the class alphabet.
func TestExhaustive(t *testing.T) {
	defer vf.AfterCheck(t)
	L := vf.Pick(3, 5)
	LA := vf.Pick(3, 4)
	k, n := vf.Shard()
	idx := 0
	buf := make([]rune, 0, L)
	var rec func(depth, maxLen int, mode string) bool
	rec = func(depth, maxLen int, mode string) bool {
		idx++
		if idx%n == k {
			s := string(buf)
			if !(mode == "alias" && (strings.HasPrefix(s, `"`) || strings.HasSuffix(s, `"`))) {
				c := Case{Src: []byte(s), Mode: mode, AliasLine: 3, AliasColumn: 7}
				f, feats := judge(c)
				if f != nil {
					if !vf.Report(t, f) {
						return false
					}
				} else {
					record(c, feats)
				}
			}
		}
		if depth == maxLen {
			return true
		}
		for _, r := range exhaustAlphabet {
			buf = append(buf, r)
			ok := rec(depth+1, maxLen, mode)
			buf = buf[:len(buf)-1]
			if !ok {
				return false
			}
		}
		return true
	}
	rec(0, L, "normal")
	rec(0, LA, "alias")
	// all leading-whitespace strings up to length 8 over {space, tab, CR}, at the start of the text and of a later line
	ws := []rune{' ', '\t', '\r'}
	var wrec func(depth int) bool
	wrec = func(depth int) bool {
		idx++
		if idx%n == k {
			for _, src := range []string{string(buf) + "x y", "a\n" + string(buf) + "wenn\n  b"} {
				c := Case{Src: []byte(src), Mode: "normal"}
				f, feats := judge(c)
				if f != nil {
					if !vf.Report(t, f) {
						return false
					}
				} else {
					record(c, feats)
				}
			}
		}
		if depth == 8 {
			return true
		}
		for _, r := range ws {
			buf = append(buf, r)
			ok := wrec(depth + 1)
			buf = buf[:len(buf)-1]
			if !ok {
				return false
			}
		}
		return true
	}
	buf = buf[:0]
	wrec(0)
	vf.SetExhaustive(false) // the exhaustive part is one of several generators
	vf.SetExtra("exhaustive_part", fmt.Sprintf("all strings of length <= %d (normal mode) and <= %d (alias mode) over the %d-symbol class alphabet %q", L, LA, len(exhaustAlphabet), string(exhaustAlphabet)))
}
