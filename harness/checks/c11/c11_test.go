// C11 — optimisation level and link mode do not change program behaviour.
package c11

import (
	"encoding/json"
	"fmt"
	"os"
	"path/filepath"
	"sort"
	"strings"
	"testing"

	"pgregory.net/rapid"

	"verif/ddp"
	"verif/fe"
	"verif/gen"
	"verif/ref"
	"verif/vf"
)

type Case struct {
	Files    map[string]string `json:"files"` // main.ddp [+ lib.ddp]
	Configs  []string          `json:"configs,omitempty"` // subset of the nine configurations (empty = all)
	Features []string          `json:"features,omitempty"`
}

type config struct {
	level int
	mode  string // default | listdefs-separate | modules-separate
}

func (c config) String() string { return fmt.Sprintf("O%d/%s", c.level, c.mode) }

var configs = func() []config {
	var cs []config
	for _, l := range []int{0, 1, 2} {
		for _, m := range []string{"default", "listdefs-separate", "modules-separate"} {
			cs = append(cs, config{l, m})
		}
	}
	return cs
}()

func TestMain(m *testing.M) {
	vf.Main(m, vf.Def{
		ID:    "C11",
		Level: "exploration",
		Rule: "differential testing: one generated program (core language incl. programs that end in a Laufzeitfehler; half of them split into an imported module lib.ddp holding the Kombinationen and functions; value arguments passed as variables that are printed after the call, Referenz arguments as variables, list elements and fields) is built in 9 configurations (thorough; quick: the three levels in the default mode plus each other mode at one drawn level) {-O 0,1,2} x {modules and list definitions linked into one LLVM module (default), --list-defs-linken=false, every module compiled separately with --module-linken=false --list-defs-linken=false and linked by gcc}; " +
			"oracle: stdout, exit status and the first 'Laufzeitfehler' line of stderr are identical in all configurations; programs with operations the language leaves unspecified are discarded (they may legitimately differ); " +
			"non-trivial = the program contains a call with a non-primitive argument or is split into two modules; distinct by source hash",
		Assumptions: []string{
			"modules-separate + list definitions linked into every module would define the list functions more than once; that combination is not a usable configuration and is left out",
			"no reference result is involved: a defect present in all nine configurations is C01's subject",
		},
		Judge: func(raw json.RawMessage) *vf.Failure {
			var c Case
			if err := json.Unmarshal(raw, &c); err != nil {
				return vf.NewFailure("harness:bad-case", err.Error(), nil)
			}
			f, _ := judge(c)
			return f
		},
	})
}

// the Duden module the generated programs import, compiled once per level as a separate object
func dudenObject(level int) (string, bool) {
	obj := filepath.Join(ddp.Work, fmt.Sprintf("c11_ausgabe_O%d.o", level))
	if _, err := os.Stat(obj); err == nil {
		return obj, true
	}
	tmp := fmt.Sprintf("%s.%d.tmp.o", obj, os.Getpid())
	dir := filepath.Dir(tmp)
	r := ddp.Compile(dir, filepath.Join(ddp.DDPPath(), "Duden/Ausgabe.ddp"), tmp, "-O", fmt.Sprint(level), "--module-linken=false", "--list-defs-linken=false")
	if r.Exit != 0 {
		return r.Stdout + r.Stderr, false
	}
	if lr := ddp.Run(dir, 60e9, "objcopy", "--localize-symbol=ddp_ddpmain", tmp); lr.Exit != 0 {
		return lr.Stderr, false
	}
	os.Rename(tmp, obj)
	return obj, true
}

func build(dir string, c Case, cf config) (exe string, problem string) {
	exe = filepath.Join(dir, strings.ReplaceAll(cf.String(), "/", "_"))
	lvl := fmt.Sprint(cf.level)
	switch cf.mode {
	case "default":
		if r := ddp.Compile(dir, "main.ddp", exe, "-O", lvl); r.Exit != 0 || r.TimedOut {
			return "", "kddp: " + ddp.Trunc(r.Stdout+r.Stderr, 600)
		}
	case "listdefs-separate":
		if r := ddp.Compile(dir, "main.ddp", exe, "-O", lvl, "--list-defs-linken=false"); r.Exit != 0 || r.TimedOut {
			return "", "kddp: " + ddp.Trunc(r.Stdout+r.Stderr, 600)
		}
	case "modules-separate":
		aus, ok := dudenObject(cf.level)
		if !ok {
			return "", "harness: Duden/Ausgabe object: " + aus
		}
		objs := []string{}
		for name := range c.Files {
			o := filepath.Join(dir, strings.TrimSuffix(name, ".ddp")+"_"+lvl+".o")
			if r := ddp.Compile(dir, name, o, "-O", lvl, "--module-linken=false", "--list-defs-linken=false"); r.Exit != 0 || r.TimedOut {
				return "", "kddp (" + name + "): " + ddp.Trunc(r.Stdout+r.Stderr, 600)
			}
			if name != "main.ddp" {
				if lr := ddp.Run(dir, 60e9, "objcopy", "--localize-symbol=ddp_ddpmain", o); lr.Exit != 0 {
					return "", "harness: objcopy " + lr.Stderr
				}
			}
			objs = append(objs, o)
		}
		sort.Strings(objs)
		lib := filepath.Join(ddp.Work, "ddp/lib")
		args := append([]string{"-o", exe}, objs...)
		args = append(args, aus, "-L"+lib, "-lddpstdlib", filepath.Join(lib, "ddp_list_types_defs.o"), "-lddpruntime", "-lm", filepath.Join(lib, "main.o"))
		if lr := ddp.Run(dir, 120e9, "gcc", args...); lr.Exit != 0 {
			return "", "link: " + ddp.Trunc(lr.Stderr, 600)
		}
	}
	return exe, ""
}

func behaviour(r ddp.Result) string {
	first := ""
	for _, l := range strings.Split(r.Stderr, "\n") {
		if strings.Contains(l, "Laufzeitfehler") || strings.Contains(l, "free()") || strings.Contains(l, "corrupted") {
			first = l
			break
		}
	}
	return fmt.Sprintf("exit=%d signal=%q stderr-first=%q\n%s", r.Exit, r.Signal, first, r.Stdout)
}

func judge(c Case) (*vf.Failure, string) {
	if res := fe.ParseFiles(c.Files, "main.ddp"); !res.Accepted() {
		res.Cleanup()
		return nil, "frontend-rejected: " + strings.Join(res.DiagStrings(), " | ")
	} else {
		res.Cleanup()
	}
	dir := ddp.TempDir("verif-c11-")
	defer os.RemoveAll(dir)
	ddp.WriteFiles(dir, c.Files)
	seen := map[string][]string{}
	var order []string
	use := configs
	if len(c.Configs) > 0 {
		use = nil
		for _, cf := range configs {
			for _, n := range c.Configs {
				if cf.String() == n {
					use = append(use, cf)
				}
			}
		}
	}
	for _, cf := range use {
		exe, problem := build(dir, c, cf)
		var b string
		if problem != "" {
			if strings.HasPrefix(problem, "harness:") {
				return nil, "inconclusive-" + problem
			}
			b = "BUILD FAILS: " + problem
		} else {
			r := ddp.Exec(dir, exe, "")
			if r.TimedOut {
				return nil, "inconclusive-run-timeout"
			}
			b = behaviour(r)
		}
		if _, ok := seen[b]; !ok {
			order = append(order, b)
		}
		seen[b] = append(seen[b], cf.String())
	}
	if len(order) > 1 {
		var sb strings.Builder
		for _, b := range order {
			fmt.Fprintf(&sb, "--- %v:\n%s\n", seen[b], ddp.Trunc(b, 900))
		}
		// signature: which axis disagrees
		minority := order[0]
		for _, b := range order {
			if len(seen[b]) < len(seen[minority]) {
				minority = b
			}
		}
		axis := strings.Join(seen[minority], ",")
		if strings.HasPrefix(minority, "BUILD FAILS") {
			axis = "build-fails:" + axis
		}
		var src strings.Builder
		names := make([]string, 0, len(c.Files))
		for n := range c.Files {
			names = append(names, n)
		}
		sort.Strings(names)
		for _, n := range names {
			fmt.Fprintf(&src, "--- %s\n%s", n, c.Files[n])
		}
		return vf.NewFailure("C11:differs:"+axis, fmt.Sprintf("%d different behaviours over the configurations built:\n%s%s", len(order), sb.String(), src.String()), c), "violation"
	}
	return nil, "ok"
}

func TestConfigurations(t *testing.T) {
	defer vf.AfterCheck(t)
	vf.Checks(112, 800)
	rapid.Check(t, func(t *rapid.T) {
		cfg := gen.Config{MaxStmts: rapid.IntRange(3, 8).Draw(t, "size"), MaxDepth: rapid.IntRange(1, 3).Draw(t, "depth"), Funcs: 3, Structs: true, AllowRTE: rapid.IntRange(0, 2).Draw(t, "rte") == 0, Bias: rapid.SampledFrom([]string{"", "heap"}).Draw(t, "bias")}
		var prog *gen.Program
		var feats map[string]int
		if rapid.IntRange(0, 9).Draw(t, "profile") < 5 {
			prog, feats = gen.GenerateAlias(t) // aliasing scenarios: where the -O 2 copy elision can show
			feats["alias-scenario"]++
		} else {
			prog, feats = gen.Generate(t, cfg)
		}
		if len(prog.Funcs) == 0 {
			t.Skip("no functions") // the interesting configurations differ in how calls and modules are compiled
		}
		if rapid.IntRange(0, 3).Draw(t, "main-in-function") > 0 { // holders as locals of a function instead of globals
			gen.WrapMain(prog)
			feats["main-in-function"]++
		}
		out := ref.Run(prog)
		if out.Budget || out.Unspecified != "" {
			vf.Count("discard:unspecified-or-budget")
			t.Skip("discard")
		}
		pr := &gen.Printer{ParenPrint: rapid.IntRange(0, 7).Draw(t, "paren-print") > 0}
		c := Case{Files: map[string]string{}}
		split := rapid.IntRange(0, 2).Draw(t, "split-into-modules") > 0
		if split {
			lib, main := pr.ProgramSplit(prog)
			c.Files["lib.ddp"], c.Files["main.ddp"] = lib, main
		} else {
			c.Files["main.ddp"] = pr.Program(prog)
		}
		for f := range feats {
			c.Features = append(c.Features, f)
		}
		sort.Strings(c.Features)
		if !vf.Thorough() {
			c.Configs = []string{"O0/default", "O1/default", "O2/default",
				fmt.Sprintf("O%d/listdefs-separate", rapid.IntRange(0, 2).Draw(t, "ld-level")), fmt.Sprintf("O%d/modules-separate", rapid.IntRange(0, 2).Draw(t, "ms-level"))}
		}
		f, outcome := judge(c)
		if strings.HasPrefix(outcome, "frontend-rejected") {
			vf.Count("generator:frontend-rejected")
			vf.Sample("frontend-rejected(generator defect)", map[string]any{"why": outcome, "files": c.Files})
			t.Skip("rejected")
		}
		if vf.Report(t, f) {
			return
		}
		if outcome != "ok" {
			vf.Count(outcome)
			return
		}
		nonPrimCall := false
		for k := range feats {
			if strings.HasPrefix(k, "call:val:list") || strings.HasPrefix(k, "call:val:Text") || strings.HasPrefix(k, "call:val:Kombination") || strings.HasPrefix(k, "call:val-variable") || strings.HasPrefix(k, "call:ref") {
				nonPrimCall = true
			}
		}
		nt := nonPrimCall || split
		fl := []string{fmt.Sprintf("split=%v", split)}
		if nonPrimCall {
			fl = append(fl, "call-with-non-primitive-or-Referenz-argument")
		}
		if out.Laufzeitfehler {
			fl = append(fl, "ends-in-laufzeitfehler")
		}
		key := c.Files["main.ddp"] + c.Files["lib.ddp"]
		vf.Case(key, nt, fl...)
		if len(c.Configs) > 0 {
			vf.Count("builds", int64(len(c.Configs)))
		} else {
			vf.Count("builds", int64(len(configs)))
		}
		if nt {
			vf.Sample(fmt.Sprintf("split=%v", split), c.Files)
		}
	})
}
