// C10: modules expose exactly their public names, are initialised once and in dependency order.
//
// Generator: import DAGs of 2-6 module files (top level, sub directories, names that differ only in letter
// case) + main; every module declares private and public globals with printing initialisers, same-named
// private declarations, a uniquely named public function, a public and a private constant, a public Kombination with a public and a private field, a private Kombination and optionally the same-named public function 'wer';
// imports are plain, selective (also split over two statements), directory and recursive directory imports.
// Oracle: a model of the statement computes the set of visible names per module and the expected output
// (initialiser trace + values + calls); one optional injected fault (use of an invisible name, selective
// import of a private name, import cycle) must be rejected with a diagnostic.
package c10

import (
	"encoding/json"
	"fmt"
	"os"
	"path/filepath"
	"sort"
	"strings"
	"testing"

	"pgregory.net/rapid"
	"verif/ddp"
	"verif/fe"
	"verif/vf"
)

type Case struct {
	Files        map[string]string `json:"files"`
	Expect       string            `json:"expect_stdout,omitempty"`
	ExpectReject bool              `json:"expect_reject,omitempty"`
	Fault        string            `json:"fault,omitempty"`
	Desc         []string          `json:"desc,omitempty"`
	CLI          bool              `json:"cli,omitempty"` // negative cases: also through the kddp CLI
}

// ---------------------------------------------------------------- generator + model

type imp struct {
	kind    string // plain | select | dir | rdir
	targets []int  // modules made visible, in the order the frontend resolves them
	names   []string
	path    string // import string
}

type mod struct {
	path    string // relative to the project root, without .ddp
	tag     string
	hasWer  bool
	hasPriv bool
	imports []imp
	visible map[string]int // name -> declaring module
	g       int64
}

var pathPool = []string{"a", "b", "c", "Format", "format", "werk/a", "werk/B", "werk/b", "werk/m", "werk/tief/t", "werk/tief/u", "lib/util", "Lib/util", "z"}

func relImport(fromPath, toPath string) string {
	r, err := filepath.Rel(filepath.Dir(fromPath), toPath)
	if err != nil {
		panic(err)
	}
	return filepath.ToSlash(r)
}

func publicNames(m *mod) []string {
	ns := []string{"g_" + m.tag, "frage_" + m.tag, "k_" + m.tag, "Ding_" + m.tag}
	if m.hasWer {
		ns = append(ns, "wer")
	}
	return ns
}

// modules of dir in the order filepath.WalkDir visits them
func dirModules(mods []*mod, dir string, recursive bool) []int {
	var idx []int
	for i, m := range mods {
		if i == 0 {
			continue
		}
		d := filepath.Dir(m.path)
		if d == dir || (recursive && strings.HasPrefix(d+"/", dir+"/")) {
			idx = append(idx, i)
		}
	}
	// WalkDir: lexical order of the path components, a directory's content at the position of its name
	sort.Slice(idx, func(a, b int) bool {
		pa, pb := strings.Split(mods[idx[a]].path+".ddp", "/"), strings.Split(mods[idx[b]].path+".ddp", "/")
		for k := 0; k < len(pa) && k < len(pb); k++ {
			if pa[k] != pb[k] {
				return pa[k] < pb[k]
			}
		}
		return len(pa) < len(pb)
	})
	return idx
}

func generate(t *rapid.T) (Case, bool) {
	n := rapid.IntRange(2, 6).Draw(t, "modules")
	pool := pathPool
	if rapid.Bool().Draw(t, "clustered") { // several modules in one directory tree
		pool = []string{"werk/a", "werk/B", "werk/b", "werk/m", "werk/tief/t", "werk/tief/u", "a", "z"}
	}
	paths := rapid.Permutation(pool).Draw(t, "paths")[:n]
	mods := []*mod{{path: "main", tag: "haupt", visible: map[string]int{}}}
	for i, p := range paths {
		tag := fmt.Sprintf("m%d", i+1)
		mods = append(mods, &mod{path: p, tag: tag, hasWer: rapid.IntRange(0, 9).Draw(t, "wer") < 4, hasPriv: rapid.Bool().Draw(t, "priv"), visible: map[string]int{}})
	}
	var desc []string
	multiPath := false
	// imports, from the leaves up (module i imports only modules with a larger index)
	reach := make([]map[int]bool, len(mods))
	for i := len(mods) - 1; i >= 0; i-- {
		m := mods[i]
		reach[i] = map[int]bool{}
		own := map[string]bool{"zustand": true, "intern": true, "melde_" + m.tag: true, "g_" + m.tag: true, "frage_" + m.tag: true, "p_" + m.tag: true, "k_" + m.tag: true, "kp_" + m.tag: true, "Ding_" + m.tag: true, "Intern_" + m.tag: true}
		if m.hasWer {
			own["wer"] = true
		}
		clash := func(name string) bool { _, v := m.visible[name]; return v || own[name] }
		var cands []int
		for j := i + 1; j < len(mods); j++ {
			cands = append(cands, j)
		}
		if len(cands) == 0 {
			continue
		}
		// directory import (whole directory must lie behind i and be free of clashes)
		usedDir := map[int]bool{}
		if rapid.IntRange(0, 9).Draw(t, "dir-import") < 3 {
			dirs := map[string]bool{}
			for _, j := range cands {
				if d := filepath.Dir(mods[j].path); d != "." {
					dirs[d] = true
					if dd := filepath.Dir(d); dd != "." {
						dirs[dd] = true
					}
				}
			}
			var dl []string
			for d := range dirs {
				dl = append(dl, d)
			}
			sort.Strings(dl)
			if len(dl) > 0 {
				d := rapid.SampledFrom(dl).Draw(t, "dir")
				rec := rapid.Bool().Draw(t, "recursive")
				members := dirModules(mods, d, rec)
				ok := len(members) > 0
				seen := map[string]bool{}
				for _, j := range members {
					if j <= i {
						ok = false
					}
					for _, nm := range publicNames(mods[j]) {
						if clash(nm) || seen[nm] {
							ok = false
						}
						seen[nm] = true
					}
				}
				if ok {
					kind := "dir"
					if rec {
						kind = "rdir"
					}
					im := imp{kind: kind, targets: members, path: relImport(m.path, d)}
					for _, j := range members {
						usedDir[j] = true
						for _, nm := range publicNames(mods[j]) {
							m.visible[nm] = j
						}
					}
					m.imports = append(m.imports, im)
					desc = append(desc, "import:"+kind)
				}
			}
		}
		for _, j := range rapid.Permutation(cands).Draw(t, "order") {
			if usedDir[j] {
				continue
			}
			must := j == i+1 && len(m.imports) == 0
			if !must && rapid.IntRange(0, 9).Draw(t, "edge") >= 5 {
				continue
			}
			var free []string
			for _, nm := range publicNames(mods[j]) {
				if !clash(nm) {
					free = append(free, nm)
				}
			}
			if len(free) == 0 {
				continue
			}
			ip := relImport(m.path, mods[j].path)
			if rapid.Bool().Draw(t, "dot-slash") && !strings.HasPrefix(ip, "..") {
				ip = "./" + ip
			}
			if len(free) == len(publicNames(mods[j])) && rapid.IntRange(0, 9).Draw(t, "plain") < 5 {
				m.imports = append(m.imports, imp{kind: "plain", targets: []int{j}, path: ip})
				desc = append(desc, "import:plain")
			} else {
				k := rapid.IntRange(1, len(free)).Draw(t, "nsel")
				sel := rapid.Permutation(free).Draw(t, "sel")
				first := sel[:k]
				m.imports = append(m.imports, imp{kind: "select", targets: []int{j}, names: first, path: ip})
				desc = append(desc, fmt.Sprintf("import:select-%d", len(first)))
				if k < len(sel) && rapid.Bool().Draw(t, "split") { // the same module again with the remaining names
					m.imports = append(m.imports, imp{kind: "select", targets: []int{j}, names: sel[k:], path: relImport(m.path, mods[j].path)})
					desc = append(desc, "import:select-again")
					free = sel
				} else {
					free = first
				}
			}
			for _, nm := range free {
				m.visible[nm] = j
			}
		}
		// the directory import stands at any position among the imports (modules of the directory may already
		// have been reached through an earlier import)
		if len(m.imports) > 1 && (m.imports[0].kind == "dir" || m.imports[0].kind == "rdir") {
			pos := rapid.IntRange(0, len(m.imports)-1).Draw(t, "dir-position")
			d := m.imports[0]
			rest := append([]imp(nil), m.imports[1:]...)
			m.imports = append(append(append([]imp(nil), rest[:pos]...), d), rest[pos:]...)
		}
		for _, im := range m.imports {
			for _, j := range im.targets {
				if reach[i][j] {
					multiPath = true
				}
				reach[i][j] = true
				for r := range reach[j] {
					if reach[i][r] {
						multiPath = true
					}
					reach[i][r] = true
				}
			}
		}
	}
	// values
	for i := len(mods) - 1; i >= 1; i-- {
		m := mods[i]
		m.g = int64(i)
		for nm, j := range m.visible {
			if strings.HasPrefix(nm, "g_") {
				m.g += mods[j].g
			}
		}
	}
	// optional fault
	fault := ""
	var faultStmt string
	if rapid.IntRange(0, 9).Draw(t, "fault") < 4 {
		main := mods[0]
		var invisibleG []string // public names of reachable but not directly visible modules, or unlisted names
		for j := 1; j < len(mods); j++ {
			for _, nm := range publicNames(mods[j]) {
				if nm == "wer" {
					continue
				}
				if _, v := main.visible[nm]; !v && strings.HasPrefix(nm, "g_") {
					invisibleG = append(invisibleG, nm)
				}
			}
		}
		sort.Strings(invisibleG)
		var direct []int
		for _, im := range main.imports {
			direct = append(direct, im.targets...)
		}
		switch k := rapid.IntRange(0, 4).Draw(t, "fault-kind"); {
		case k == 0 && len(invisibleG) > 0:
			fault = "use-of-invisible-public-name"
			faultStmt = "Schreibe " + rapid.SampledFrom(invisibleG).Draw(t, "inv") + " auf eine Zeile.\n"
		case k == 1 && len(direct) > 0:
			j := rapid.SampledFrom(direct).Draw(t, "privmod")
			fault = "use-of-private-name"
			what := rapid.SampledFrom([]string{"zustand", "melde_" + mods[j].tag + " 1", "der interne wert", "kp_" + mods[j].tag, "a von (ein internes ding " + mods[j].tag + ")"}).Draw(t, "privname")
			if _, sees := main.visible["Ding_"+mods[j].tag]; sees && rapid.Bool().Draw(t, "private-field") {
				what = "verborgen von (ein neues ding " + mods[j].tag + ")"
			}
			if mods[j].hasPriv && rapid.Bool().Draw(t, "p-var") {
				what = "p_" + mods[j].tag
			}
			faultStmt = "Schreibe (" + what + ") auf eine Zeile.\n"
		case k == 2 && len(mods) > 1:
			j := rapid.IntRange(1, len(mods)-1).Draw(t, "selpriv")
			fault = "selective-import-of-private-name"
			faultStmt = "Binde " + rapid.SampledFrom([]string{"zustand", "intern", "melde_" + mods[j].tag, "kp_" + mods[j].tag, "Intern_" + mods[j].tag}).Draw(t, "pn") + " aus \"" + relImport("main", mods[j].path) + "\" ein.\n"
		case k >= 3:
			// a cycle: some module j imports a module i that (transitively) imports j, or itself
			var pairs [][2]int
			for i := 1; i < len(mods); i++ {
				pairs = append(pairs, [2]int{i, i})
				for j := range reach[i] {
					pairs = append(pairs, [2]int{j, i})
				}
			}
			sort.Slice(pairs, func(a, b int) bool { return pairs[a][0]*100+pairs[a][1] < pairs[b][0]*100+pairs[b][1] })
			// the cycle must be reachable from main
			var live [][2]int
			for _, p := range pairs {
				if reach[0][p[0]] {
					live = append(live, p)
				}
			}
			if len(live) > 0 {
				p := rapid.SampledFrom(live).Draw(t, "cycle")
				fault = map[bool]string{true: "import-cycle(self import)", false: "import-cycle(through other modules)"}[p[0] == p[1]]
				mods[p[0]].imports = append(mods[p[0]].imports, imp{kind: "cycle", targets: nil, names: []string{"g_" + mods[p[1]].tag}, path: relImport(mods[p[0]].path, mods[p[1]].path)})
			}
		}
	}

	// ---- print the files
	files := map[string]string{}
	importLine := func(im imp) string {
		switch im.kind {
		case "plain":
			return fmt.Sprintf("Binde \"%s\" ein.\n", im.path)
		case "dir":
			return fmt.Sprintf("Binde alle Module aus \"%s\" ein.\n", im.path)
		case "rdir":
			return fmt.Sprintf("Binde rekursiv alle Module aus \"%s\" ein.\n", im.path)
		}
		ns := im.names
		switch len(ns) {
		case 1:
			return fmt.Sprintf("Binde %s aus \"%s\" ein.\n", ns[0], im.path)
		case 2:
			return fmt.Sprintf("Binde %s und %s aus \"%s\" ein.\n", ns[0], ns[1], im.path)
		default:
			return fmt.Sprintf("Binde %s und %s aus \"%s\" ein.\n", strings.Join(ns[:len(ns)-1], ", "), ns[len(ns)-1], im.path)
		}
	}
	gExpr := func(m *mod, base int64) string {
		e := fmt.Sprint(base)
		var gs []string
		for nm := range m.visible {
			if strings.HasPrefix(nm, "g_") {
				gs = append(gs, nm)
			}
		}
		sort.Strings(gs)
		for _, g := range gs {
			e += " plus " + g
		}
		return e
	}
	for i := 1; i < len(mods); i++ {
		m := mods[i]
		var sb strings.Builder
		sb.WriteString("Binde \"Duden/Ausgabe\" ein.\n")
		for _, im := range m.imports {
			sb.WriteString(importLine(im))
		}
		fmt.Fprintf(&sb, "\nDie Funktion melde_%s mit dem Parameter x vom Typ Zahl, gibt eine Zahl zurück, macht:\n\tSchreibe \"init %s\" auf eine Zeile.\n\tGib x zurück.\nUnd kann so benutzt werden:\n\t\"melde_%s <x>\"\n\n", m.tag, m.tag, m.tag)
		fmt.Fprintf(&sb, "Die Zahl zustand ist melde_%s %d.\n", m.tag, 100+i)
		fmt.Fprintf(&sb, "Die öffentliche Zahl g_%s ist melde_%s (%s).\n", m.tag, m.tag, gExpr(m, int64(i)))
		if m.hasPriv {
			fmt.Fprintf(&sb, "Die Zahl p_%s ist melde_%s 7.\n", m.tag, m.tag)
		}
		fmt.Fprintf(&sb, "\nDie Funktion intern gibt eine Zahl zurück, macht:\n\tGib %d zurück.\nUnd kann so benutzt werden:\n\t\"der interne wert\"\n\n", i*1000)
		fmt.Fprintf(&sb, "Die öffentliche Funktion frage_%s gibt eine Zahl zurück, macht:\n\tErhöhe zustand um 1.\n\tGib zustand plus (der interne wert) zurück.\nUnd kann so benutzt werden:\n\t\"frage %s\"\n\n", m.tag, m.tag)
		fmt.Fprintf(&sb, "Die öffentliche Konstante k_%s ist %d.\nDie Konstante kp_%s ist 5.\n\n", m.tag, 100+i, m.tag)
		fmt.Fprintf(&sb, "Wir nennen die öffentliche Kombination aus\n\tder öffentlichen Zahl wert mit Standardwert %d,\n\tder Zahl verborgen mit Standardwert 9,\neinen Ding_%s, und erstellen sie so:\n\t\"ein neues ding %s\"\n\n", i, m.tag, m.tag)
		fmt.Fprintf(&sb, "Wir nennen die Kombination aus\n\tder Zahl a mit Standardwert 1,\neinen Intern_%s, und erstellen sie so:\n\t\"ein internes ding %s\"\n\n", m.tag, m.tag)
		if m.hasWer {
			fmt.Fprintf(&sb, "Die öffentliche Funktion wer gibt einen Text zurück, macht:\n\tGib \"wer aus %s\" zurück.\nUnd kann so benutzt werden:\n\t\"wer da\"\n\n", m.tag)
		}
		// top-level statements of an imported module are not executed
		fmt.Fprintf(&sb, "Schreibe \"oberste Ebene von %s\" auf eine Zeile.\n", m.tag)
		files[m.path+".ddp"] = sb.String()
	}
	// main + expected output
	var sb, out strings.Builder
	main := mods[0]
	sb.WriteString("Binde \"Duden/Ausgabe\" ein.\n\nDie Funktion melde_haupt mit dem Parameter x vom Typ Zahl, gibt eine Zahl zurück, macht:\n\tSchreibe \"init haupt\" auf eine Zeile.\n\tGib x zurück.\nUnd kann so benutzt werden:\n\t\"melde_haupt <x>\"\n\n")
	sb.WriteString("Schreibe \"haupt anfang\" auf eine Zeile.\nDie Zahl vorher ist melde_haupt 1.\n")
	out.WriteString("haupt anfang\ninit haupt\n")
	done := map[int]bool{}
	var initMod func(j int)
	initMod = func(j int) {
		if done[j] {
			return
		}
		done[j] = true
		m := mods[j]
		for _, im := range m.imports {
			for _, d := range im.targets {
				initMod(d)
			}
		}
		out.WriteString("init " + m.tag + "\ninit " + m.tag + "\n")
		if m.hasPriv {
			out.WriteString("init " + m.tag + "\n")
		}
	}
	for k, im := range main.imports {
		sb.WriteString(importLine(im))
		fmt.Fprintf(&sb, "Schreibe \"nach %d\" auf eine Zeile.\n", k)
		for _, d := range im.targets {
			initMod(d)
		}
		fmt.Fprintf(&out, "nach %d\n", k)
	}
	sb.WriteString("Die Zahl nachher ist melde_haupt (" + gExpr(main, 0) + ").\nSchreibe nachher auf eine Zeile.\n")
	var sum int64
	var vis []string
	for nm, j := range main.visible {
		vis = append(vis, nm)
		if strings.HasPrefix(nm, "g_") {
			sum += mods[j].g
		}
	}
	sort.Strings(vis)
	fmt.Fprintf(&out, "init haupt\n%d\n", sum)
	for _, nm := range vis {
		j := main.visible[nm]
		switch {
		case strings.HasPrefix(nm, "g_"):
			fmt.Fprintf(&sb, "Schreibe %s auf eine Zeile.\n", nm)
			fmt.Fprintf(&out, "%d\n", mods[j].g)
		case strings.HasPrefix(nm, "frage_"):
			// two calls: the module's private state is its own and persists
			fmt.Fprintf(&sb, "Schreibe (frage %s) auf eine Zeile.\nSchreibe (frage %s) auf eine Zeile.\n", mods[j].tag, mods[j].tag)
			fmt.Fprintf(&out, "%d\n%d\n", 100+j+1+j*1000, 100+j+2+j*1000)
		case strings.HasPrefix(nm, "k_"):
			fmt.Fprintf(&sb, "Schreibe %s auf eine Zeile.\n", nm)
			fmt.Fprintf(&out, "%d\n", 100+j)
		case strings.HasPrefix(nm, "Ding_"):
			fmt.Fprintf(&sb, "Der %s d_%s ist ein neues ding %s.\nSchreibe (wert von d_%s) auf eine Zeile.\n", nm, mods[j].tag, mods[j].tag, mods[j].tag)
			fmt.Fprintf(&out, "%d\n", j)
		case nm == "wer":
			sb.WriteString("Schreibe (wer da) auf eine Zeile.\n")
			fmt.Fprintf(&out, "wer aus %s\n", mods[j].tag)
		}
	}
	sb.WriteString(faultStmt)
	sb.WriteString("Schreibe \"haupt ende\" auf eine Zeile.\n")
	out.WriteString("haupt ende\n")
	files["main.ddp"] = sb.String()

	sameNames := 0
	for _, m := range mods[1:] {
		if m.hasWer {
			sameNames++
		}
	}
	if sameNames >= 2 {
		desc = append(desc, "wer-in-several-modules")
	}
	if multiPath {
		desc = append(desc, "module-reached-by-several-paths")
	}
	caseVariant := false
	low := map[string]bool{}
	for _, m := range mods[1:] {
		l := strings.ToLower(m.path)
		if low[l] {
			caseVariant = true
		}
		low[l] = true
	}
	if caseVariant {
		desc = append(desc, "paths-differ-only-in-case")
	}
	sort.Strings(desc)
	c := Case{Files: files, Desc: desc}
	if fault != "" {
		c.ExpectReject, c.Fault = true, fault
		c.Desc = append(c.Desc, "fault:"+fault)
	} else {
		c.Expect = out.String()
	}
	return c, multiPath || len(mods) > 2 // every module declares 'zustand' and 'intern': a name declared in >= 2 modules
}

// ---------------------------------------------------------------- judge

func firstDiff(a, b string) string {
	al, bl := strings.Split(a, "\n"), strings.Split(b, "\n")
	for k := 0; k < len(al) || k < len(bl); k++ {
		var x, y string
		if k < len(al) {
			x = al[k]
		}
		if k < len(bl) {
			y = bl[k]
		}
		if x != y {
			return fmt.Sprintf("output line %d: expected %q, got %q", k+1, x, y)
		}
	}
	return "no difference"
}

func dump(files map[string]string) string {
	var names []string
	for n := range files {
		names = append(names, n)
	}
	sort.Strings(names)
	var sb strings.Builder
	for _, n := range names {
		fmt.Fprintf(&sb, "--- %s\n%s", n, files[n])
	}
	return sb.String()
}

func judge(c Case) (*vf.Failure, string) {
	if c.ExpectReject {
		res := fe.ParseFiles(c.Files, "main.ddp")
		defer os.RemoveAll(res.Dir)
		if res.Panic != "" || res.Err != "" {
			return nil, "frontend-crash(C03)"
		}
		errs := 0
		for _, d := range res.Diags {
			if d.IsError() {
				errs++
			}
		}
		if !res.Faulty || errs == 0 {
			return vf.NewFailure("C10:accepted:"+strings.SplitN(c.Fault, "(", 2)[0], fmt.Sprintf("the program contains %s but the frontend accepted it (faulty=%v, %d error diagnostics)\n%s", c.Fault, res.Faulty, errs, dump(c.Files)), c), "violation"
		}
		if c.CLI {
			dir := ddp.TempDir("verif-c10-")
			defer os.RemoveAll(dir)
			ddp.WriteFiles(dir, c.Files)
			cr := ddp.Compile(dir, "main.ddp", filepath.Join(dir, "main"))
			if cr.TimedOut {
				return nil, "inconclusive-build-timeout"
			}
			if _, err := os.Stat(filepath.Join(dir, "main")); cr.Exit == 0 || err == nil {
				return vf.NewFailure("C10:cli-accepted:"+strings.SplitN(c.Fault, "(", 2)[0], fmt.Sprintf("the program contains %s but kddp exited with %d / produced an executable\n%s", c.Fault, cr.Exit, dump(c.Files)), c), "violation"
			}
		}
		return nil, "ok"
	}
	dir := ddp.TempDir("verif-c10-")
	defer os.RemoveAll(dir)
	ddp.WriteFiles(dir, c.Files)
	cr := ddp.Compile(dir, "main.ddp", filepath.Join(dir, "main"))
	if cr.TimedOut {
		return nil, "inconclusive-build-timeout"
	}
	if cr.Exit != 0 {
		out := cr.Stderr + cr.Stdout
		if strings.Contains(out, "Fehler beim Linken") || strings.Contains(out, "could not parse llvm ir") || strings.Contains(out, "panic") {
			return vf.NewFailure("C10:build-fails", fmt.Sprintf("a well-formed import graph does not build (same-named declarations of different modules must remain distinct)\n%s\n%s", ddp.Trunc(out, 1500), dump(c.Files)), c), "violation"
		}
		return vf.NewFailure("C10:rejected", fmt.Sprintf("a well-formed import graph (every used name is a visible public name, no cycle) is rejected\n%s\n%s", ddp.Trunc(out, 1500), dump(c.Files)), c), "violation"
	}
	r := ddp.Exec(dir, filepath.Join(dir, "main"), "")
	if r.TimedOut {
		return nil, "inconclusive-run-timeout"
	}
	if r.Exit != 0 || r.Signal != "" {
		return vf.NewFailure("C10:run-fails", fmt.Sprintf("%s\nstderr: %s\n%s", r.String(), ddp.Trunc(r.Stderr, 800), dump(c.Files)), c), "violation"
	}
	if r.Stdout != c.Expect {
		sig := "C10:output"
		d := firstDiff(c.Expect, r.Stdout)
		if strings.Contains(d, "init ") || strings.Contains(d, "nach ") || strings.Contains(d, "oberste Ebene") {
			sig = "C10:initialisation-order"
		}
		return vf.NewFailure(sig, fmt.Sprintf("%s\n--- expected\n%s--- got\n%s\n%s", d, c.Expect, ddp.Trunc(r.Stdout, 1500), dump(c.Files)), c), "violation"
	}
	return nil, "ok"
}

func TestMain(m *testing.M) {
	vf.Main(m, vf.Def{
		ID:    "C10",
		Level: "exploration",
		Rule: "generated import DAGs of 2-6 module files + main (files at top level, in sub directories and with paths that differ only in letter case; plain, selective, split selective, './'-prefixed, directory and recursive directory imports; diamonds and repeated imports); every module has printing initialisers for a private and a public global (the public one adds the public globals of the modules it sees), the same-named private global 'zustand' and private function 'intern', a public function that mutates and reads its module's private state, optionally the same-named public function 'wer', and a top-level output statement; main prints between its imports, uses every name the model says is visible and calls the public functions twice; " +
			"oracle: model of the statement - expected stdout = initialiser trace (dependencies first, each module once, at the position of main's import, own initialisers in source order, no top-level statements of imported modules) + values + calls; 40% of the cases carry one fault (use of a public name of a module that is only reachable transitively or was not listed, use of a private name, selective import of a private name, import cycle of length 1-n reachable from main) and must be rejected with an error diagnostic (frontend in-process, 1 in 8 also through the kddp CLI: non-zero exit, no executable); " +
			"non-trivial = a module reachable by >= 2 paths or a name declared in >= 2 modules; distinct by file set",
		Assumptions: []string{
			"imports of a non-main module stand before its declarations (the statement leaves open whether a non-main module's own earlier initialisers run before an import's)",
			"name clashes between imports are not generated (the generator switches to a selective import)",
		},
		Judge: func(raw json.RawMessage) *vf.Failure {
			var c Case
			if err := json.Unmarshal(raw, &c); err != nil {
				return vf.NewFailure("harness:bad-case", err.Error(), nil)
			}
			f, _ := judge(c)
			return f
		},
	})
}

func TestImportGraphs(t *testing.T) {
	defer vf.AfterCheck(t)
	vf.Checks(480, 12000)
	rapid.Check(t, func(t *rapid.T) {
		c, nontrivial := generate(t)
		if c.ExpectReject {
			c.CLI = rapid.IntRange(0, 7).Draw(t, "cli") == 0
		}
		vf.Case(dump(c.Files), nontrivial, c.Desc...)
		f, outcome := judge(c)
		if vf.Report(t, f) {
			return
		}
		if outcome != "ok" {
			vf.Count(outcome)
			return
		}
		kind := "accepted-graph"
		if c.ExpectReject {
			kind = "fault:" + strings.SplitN(c.Fault, "(", 2)[0]
		}
		vf.Sample(kind, map[string]any{"files": c.Files, "expect": c.Expect, "fault": c.Fault})
	})
}
