package zz_measure

import (
	"os"
	"testing"

	"pgregory.net/rapid"
	"verif/gen"
)

func TestDumpVariableProgram(t *testing.T) {
	if os.Getenv("VARDUMP") == "" {
		t.Skip()
	}
	rapid.Check(t, func(t *rapid.T) {
		src, exp, _ := gen.GenerateVariableProgram(t, true)
		if os.Getenv("VARDUMP_EXTRA") != "" {
			src, exp, _ = gen.GenerateRecursionOverloadProgram(t, true)
		}
		os.WriteFile(os.Getenv("VARDUMP")+".ddp", []byte(src), 0o644)
		os.WriteFile(os.Getenv("VARDUMP")+".expect", []byte(exp), 0o644)
	})
}
