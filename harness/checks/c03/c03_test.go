// C03 — the frontend is total: no input crashes or hangs it.
package c03

import (
	"encoding/json"
	"fmt"
	"strings"
	"testing"
	"time"

	"pgregory.net/rapid"

	"verif/fw"
	"verif/mut"
	"verif/vf"
)

type Case struct {
	Kind   string            `json:"kind"` // raw | soup | skeleton | nearvalid | imports | stress
	Main   string            `json:"main"`
	Source []byte            `json:"source,omitempty"`
	Text   string            `json:"source_text,omitempty"`
	Files  map[string]string `json:"files,omitempty"`
	Desc   []string          `json:"desc,omitempty"`
}

var callTimeout = 60 * time.Second

// once a hang/crash has been confirmed, rapid only shrinks it: candidates then get a short limit so that
// minimisation stays within the run's budget (a candidate that needs longer simply does not count as failing)
var confirmedOnce bool

var worker = &fw.Worker{}

func TestMain(m *testing.M) {
	fw.ServeIfWorker()
	vf.Main(m, vf.Def{
		ID:    "C03",
		Level: "exploration",
		Rule: "inputs <= 16 KiB from six generators (raw bytes; token soup over the full keyword/punctuation/literal vocabulary; statement skeletons with generated fillers; near-valid = a DDP file of the repository with 1-4 token-level mutations (delete, duplicate, transpose, splice, truncate, replace, insert, re-indent, cut), parsed under its original path so imports resolve; import arrangements of 1-5 generated files incl. missing files, directories, self/mutual imports, selective imports; stress shapes: deep nesting, generic/recursive/overloaded call chains) " +
			"are parsed by parser.Parse in a sacrificial worker process; oracle: the call returns (module or error) - no escaping panic, no fatal error/stack overflow, worker memory < 3 GiB, answer within 60 s (>1000x the normal cost; a time-out must reproduce alone with 120 s); " +
			"non-trivial = input yields >= 1 token and (near-valid) differs from its parent; distinct by input hash",
		Assumptions: []string{
			"a panic recovered by parser.Parse itself and returned as an error value counts as returning normally (the statement allows an error value)",
			"hangs are detected by a threshold with a large margin, not proved absent",
		},
		Judge: func(raw json.RawMessage) *vf.Failure {
			var c Case
			if err := json.Unmarshal(raw, &c); err != nil {
				return vf.NewFailure("harness:bad-case", err.Error(), nil)
			}
			f, _ := judge(c)
			return f
		},
	})
}

func request(c Case) fw.Request {
	return fw.Request{Main: c.Main, Source: c.Source, Files: c.Files}
}

func judge(c Case) (*vf.Failure, *fw.Run) {
	if c.Source != nil {
		c.Text = string(c.Source)
	}
	resp, crash := worker.Call(request(c), callTimeout)
	if crash != nil {
		if crash.Kind == "harness" {
			return vf.NewFailure("harness:worker", crash.Detail, c), nil
		}
		again := crash
		if !confirmedOnce {
			// confirm in a fresh worker, alone, with a doubled limit
			fresh := &fw.Worker{}
			_, again = fresh.Call(request(c), 2*callTimeout)
			fresh.Close()
			if again == nil {
				vf.Count("unconfirmed-crash:" + crash.Kind)
				return nil, nil
			}
			confirmedOnce = true
			callTimeout = 10 * time.Second
		}
		sig := fmt.Sprintf("C03:%s:%s", again.Kind, again.Site)
		if again.Kind == "timeout" {
			sig = "C03:timeout:" + c.Kind // where a hanging goroutine happens to be is not a root cause
		}
		return vf.NewFailure(sig, fmt.Sprintf("%s (%s) frontend worker %s: %s", c.Kind, strings.Join(c.Desc, " "), again.Kind, again.Detail), c), nil
	}
	run := resp.Runs[0]
	if run.Panic != "" {
		return vf.NewFailure("C03:panic:"+run.PanicSite, fmt.Sprintf("%s (%s): panic escaped parser.Parse at %s: %s", c.Kind, strings.Join(c.Desc, " "), run.PanicSite, run.Panic), c), &run
	}
	return nil, &run
}

var corpus *mut.Corpus

func getCorpus() *mut.Corpus {
	if corpus == nil {
		corpus = mut.LoadCorpus(vf.Repo())
	}
	return corpus
}

func genCase(t *rapid.T) Case {
	switch k := rapid.IntRange(0, 11).Draw(t, "generator"); {
	case k == 0:
		return Case{Kind: "raw", Main: "raw.ddp", Source: mut.GenRawBytes(t)}
	case k == 1:
		return Case{Kind: "soup", Main: "soup.ddp", Source: mut.GenTokenSoup(t)}
	case k <= 3:
		return Case{Kind: "skeleton", Main: "skel.ddp", Source: mut.GenSkeleton(t)}
	case k <= 5:
		files, main, desc := mut.GenImportArrangement(t)
		return Case{Kind: "imports", Main: main, Files: files, Desc: desc}
	case k <= 7:
		files, main, desc := mut.GenStress(t)
		return Case{Kind: "stress", Main: main, Files: files, Desc: desc}
	default:
		path, src, desc := getCorpus().NearValid(t)
		return Case{Kind: "nearvalid", Main: path, Source: src, Desc: desc}
	}
}

func TestFrontendTotal(t *testing.T) {
	defer vf.AfterCheck(t)
	defer worker.Close()
	if len(getCorpus().Files) < 20 {
		t.Fatalf("corpus too small: %d files", len(getCorpus().Files))
	}
	vf.SetExtra("corpus_files", len(getCorpus().Files))
	vf.Checks(24000, 1200000)
	rapid.Check(t, func(t *rapid.T) {
		c := genCase(t)
		if len(c.Source) > 16<<10 {
			c.Source = c.Source[:16<<10]
		}
		f, run := judge(c)
		if vf.Report(t, f) {
			return
		}
		key := c.Kind + "\x00" + string(c.Source)
		for n, s := range c.Files {
			key += "\x00" + n + "\x00" + s
		}
		nt := len(strings.TrimSpace(string(c.Source))) > 0 || len(c.Files) > 0
		outcome := "no-run"
		if run != nil {
			switch {
			case run.Err != "":
				outcome = "error-value"
			case run.Errors() > 0:
				outcome = "diagnostics"
			default:
				outcome = "accepted"
			}
		}
		vf.Case(key, nt, "gen:"+c.Kind, "outcome:"+outcome)
		if nt {
			s := map[string]any{"kind": c.Kind, "desc": c.Desc, "outcome": outcome}
			if c.Source != nil {
				txt := string(c.Source)
				if len(txt) > 600 {
					txt = txt[:600] + "…"
				}
				s["source"] = txt
			} else {
				s["files"] = c.Files
			}
			vf.Sample(c.Kind, s)
		}
	})
}
