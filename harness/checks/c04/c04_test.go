// C04 — statically ill-formed programs are never accepted.
package c04

import (
	"encoding/json"
	"fmt"
	"os"
	"path/filepath"
	"sort"
	"strings"
	"testing"

	"github.com/DDP-Projekt/Kompilierer/src/ast"
	"pgregory.net/rapid"

	"verif/ddp"
	"verif/fe"
	"verif/gen"
	"verif/vf"
)

type Case struct {
	Fault string            `json:"fault"` // fault class
	Site  string            `json:"site"`  // where it was injected
	Files map[string]string `json:"files"` // main.ddp (+ modules)
	Base  string            `json:"base,omitempty"`
	CLI   bool              `json:"cli,omitempty"`
	// for the overload scenario: the program may be accepted if the call binds to the value overload
	AcceptIfCallee string `json:"accept_if_callee,omitempty"`
}

func TestMain(m *testing.M) {
	vf.Main(m, vf.Def{
		ID:    "C04",
		Level: "fault_enumeration",
		Rule: "fault injection: a generated well-formed base program (accepted by the frontend with zero errors, otherwise discarded) receives exactly ONE static fault from the catalogue {undeclared name in an expression position, use after the declaring block ended, redeclaration in one scope (variable, function, Kombination), inadmissible operand type for an operator, wrong-typed initialiser / assigned value / argument / returned value / list element / Kombination field / condition (Wenn, Wenn aber, Solange, Mache-Solange, falls) / loop start, end, step / repeat count / index / slice bound / for-each collection, assignment to a Konstante, Konstante as Referenz argument (also with value+Referenz overloads of one alias), break/continue outside a loop, value-returning function without final return, return at global level, call of a private function / read of a private variable / private field / selective import of a private or missing name of another module, wrong article, Kombination or type declared inside a function, public variable in a local scope} " +
			"at a generated site (every expression slot kind and every block kind of the program, any nesting depth); oracle: the frontend delivers >= 1 error-level diagnostic AND marks the module faulty; on a sample the kddp CLI exits non-zero and leaves no executable; " +
			"non-trivial = every injected case (the base was accepted); distinct by (fault class, site kind, depth, program hash)",
		Assumptions: []string{
			"type faults are drawn from the inadmissible side only (never a pair that implicit numeric conversion makes legal in that position)",
			"generated functions have unique alias heads, injected names are fresh (zz...), so a faulty call cannot resolve to another declaration",
		},
		Judge: func(raw json.RawMessage) *vf.Failure {
			var c Case
			if err := json.Unmarshal(raw, &c); err != nil {
				return vf.NewFailure("harness:bad-case", err.Error(), nil)
			}
			return judge(c)
		},
	})
}

func judge(c Case) *vf.Failure {
	res := fe.ParseFiles(c.Files, "main.ddp")
	defer res.Cleanup()
	if res.Panic != "" || res.Err != "" {
		return nil // C03's subject
	}
	rejected := len(res.Errors()) > 0 && res.Faulty
	if !rejected && c.AcceptIfCallee != "" && res.Module != nil {
		// acceptable only if the call did not bind the Konstante to the Referenz overload
		ok := false
		for _, st := range res.Module.Ast.Statements {
			if ds, isDecl := st.(*ast.DeclStmt); isDecl {
				if vd, isVar := ds.Decl.(*ast.VarDecl); isVar && vd.Name() == "zzres" {
					e := vd.InitVal
					for {
						if g, isG := e.(*ast.Grouping); isG {
							e = g.Expr
							continue
						}
						break
					}
					if fc, isCall := e.(*ast.FuncCall); isCall && fc.Func != nil && fc.Func.Name() == c.AcceptIfCallee {
						ok = true
					}
				}
			}
		}
		if ok {
			return nil
		}
	}
	if !rejected {
		what := "no error-level diagnostic was delivered"
		if len(res.Errors()) > 0 {
			what = "diagnostics were delivered but the module is not marked faulty"
		} else if res.Faulty {
			what = "module marked faulty without a diagnostic"
			return nil // still rejected; C07 judges the flag/diagnostic equivalence
		}
		return vf.NewFailure("C04:accepted:"+c.Fault+"@"+siteClass(c.Site), fmt.Sprintf("fault %q injected at %s: %s - the ill-formed program is accepted\n--- main.ddp\n%s", c.Fault, c.Site, what, c.Files["main.ddp"]), c)
	}
	if c.CLI && ddp.Work != "" {
		dir := ddp.TempDir("verif-c04-")
		defer os.RemoveAll(dir)
		ddp.WriteFiles(dir, c.Files)
		cr := ddp.Compile(dir, "main.ddp", "out_exe")
		if cr.TimedOut {
			return nil
		}
		_, err := os.Stat(filepath.Join(dir, "out_exe"))
		vf.Count("cli:runs")
		if cr.Exit == 0 || err == nil {
			return vf.NewFailure("C04:cli-accepts:"+c.Fault, fmt.Sprintf("fault %q at %s: kddp exit status %d, executable exists: %v\n%s\n--- main.ddp\n%s", c.Fault, c.Site, cr.Exit, err == nil, ddp.Trunc(cr.Stdout+cr.Stderr, 800), c.Files["main.ddp"]), c)
		}
	}
	return nil
}

func siteClass(s string) string {
	if i := strings.Index(s, " "); i > 0 {
		return s[:i]
	}
	return s
}

// ---------------------------------------------------------------- fault catalogue

func closedLit(t *gen.Type) gen.Expr {
	switch t.K {
	case gen.KZahl:
		return &gen.Lit{T: t, I: 3}
	case gen.KKomma:
		return &gen.Lit{T: t, F: 2.5}
	case gen.KByte:
		return &gen.Lit{T: t, I: 7}
	case gen.KBool:
		return &gen.Lit{T: t, B: true}
	case gen.KChar:
		return &gen.Lit{T: t, C: 'q'}
	case gen.KText:
		return &gen.Lit{T: t, S: "falsch getippt"}
	case gen.KList:
		return &gen.ListLit{T: t, Elems: []gen.Expr{closedLit(t.Elem), closedLit(t.Elem)}}
	}
	panic("closedLit")
}

var (
	zl = gen.ListOf(gen.TZahl)
	tl = gen.ListOf(gen.TText)
)

// wrongTypes returns types that are inadmissible for the slot (never made legal by numeric conversion)
func wrongTypes(s gen.Slot) []*gen.Type {
	nonNumeric := []*gen.Type{gen.TText, gen.TBool, gen.TChar, zl}
	switch {
	case strings.HasPrefix(s.Kind, "cond-"), s.Kind == "falls-cond":
		return []*gen.Type{gen.TZahl, gen.TText, gen.TKomma, zl}
	case s.Kind == "repeat-count", s.Kind == "index", s.Kind == "slice-bound", s.Kind == "list-count":
		return []*gen.Type{gen.TKomma, gen.TText, gen.TBool}
	case s.Kind == "for-from", s.Kind == "for-to", s.Kind == "for-step":
		return []*gen.Type{gen.TText, gen.TBool, zl}
	case s.Kind == "foreach-coll":
		return []*gen.Type{gen.TZahl, gen.TBool, gen.TKomma}
	case s.Kind == "init", s.Kind == "assign-rhs", s.Kind == "field-arg", s.Kind == "compound-operand":
		if s.Want == nil {
			return nil
		}
		if s.Want.IsNumeric() {
			return nonNumeric
		}
		return otherThan(s.Want, false)
	case s.Kind == "call-arg", s.Kind == "return", s.Kind == "list-elem", s.Kind == "falls-branch":
		if s.Want == nil {
			return nil
		}
		return otherThan(s.Want, true) // exact type required: another numeric type is a fault, too
	case strings.HasPrefix(s.Kind, "operand:"):
		switch op := strings.TrimPrefix(s.Kind, "operand:"); op {
		case "plus", "minus", "mal", "durch", "neg", "abs", "kleiner", "groesser", "kleinergleich", "groessergleich", "zwischen":
			return []*gen.Type{gen.TText, gen.TBool, zl}
		case "modulo", "land", "lor", "lxor", "lnot", "shl", "shr":
			return []*gen.Type{gen.TKomma, gen.TText, gen.TBool}
		case "und", "oder", "xor", "not":
			return []*gen.Type{gen.TZahl, gen.TText, tl}
		case "len":
			return []*gen.Type{gen.TZahl, gen.TBool, gen.TKomma}
		case "von":
			return []*gen.Type{gen.TZahl, gen.TText, zl}
		case "index-collection", "slice-collection":
			return []*gen.Type{gen.TZahl, gen.TBool}
		case "gleich", "ungleich":
			if s.Want != nil {
				return otherThan(s.Want, true)
			}
		}
	}
	return nil
}

func otherThan(w *gen.Type, numericToo bool) []*gen.Type {
	var out []*gen.Type
	for _, t := range []*gen.Type{gen.TZahl, gen.TKomma, gen.TBool, gen.TChar, gen.TText, zl, tl} {
		if t == w {
			continue
		}
		if !numericToo && t.IsNumeric() && w.IsNumeric() {
			continue
		}
		// Text/Buchstabe scalar vs list cases are all inadmissible for plain value positions
		out = append(out, t)
	}
	return out
}

const modSrc = `Die Funktion zzgeheim gibt eine Zahl zurück, macht:
	Gib 1 zurück.
Und kann so benutzt werden:
	"zz geheim"

Die öffentliche Funktion zzoffen gibt eine Zahl zurück, macht:
	Gib 2 zurück.
Und kann so benutzt werden:
	"zz offen"

Die Zahl zzprivat ist 3.
Die öffentliche Zahl zzpublik ist 4.

Wir nennen die öffentliche Kombination aus
	der Zahl zzversteckt mit Standardwert 1,
	der öffentlichen Zahl zzsichtbar mit Standardwert 2,
einen ZZKombi, und erstellen sie so:
	"ein ZZKombi"
`

type injected struct {
	fault, site string
	files       map[string]string
	acceptIf    string
}

// inject draws one fault and applies it to (a fresh copy of) the program; returns nil if the drawn fault has no site.
func inject(t *rapid.T, prog *gen.Program) *injected {
	slots, lists := gen.Walk(prog)
	pr := &gen.Printer{}
	files := map[string]string{}
	out := func(fault, site string) *injected {
		files["main.ddp"] = pr.Program(prog)
		return &injected{fault: fault, site: site, files: files}
	}
	insert := func(ls gen.ListSite, stmts ...gen.Stmt) {
		l := *ls.List
		at := rapid.IntRange(0, len(l)).Draw(t, "insert-at")
		// never after a statement that ends the block (return/break/continue): unreachable code is still checked, but keep it simple
		nl := append([]gen.Stmt(nil), l[:at]...)
		nl = append(nl, stmts...)
		nl = append(nl, l[at:]...)
		*ls.List = nl
	}
	siteOf := func(ls gen.ListSite) string {
		fn := "main"
		if ls.InFunc != nil {
			fn = "function"
		}
		return fmt.Sprintf("%s depth=%d loopdepth=%d in=%s", ls.Kind, ls.Depth, ls.LoopDepth, fn)
	}
	slotSite := func(s gen.Slot) string {
		fn := "main"
		if s.InFunc != nil {
			fn = "function"
		}
		return fmt.Sprintf("%s depth=%d in=%s", s.Kind, s.Depth, fn)
	}
	pickList := func(pred func(gen.ListSite) bool) (gen.ListSite, bool) {
		var c []gen.ListSite
		for _, l := range lists {
			if pred(l) {
				c = append(c, l)
			}
		}
		if len(c) == 0 {
			return gen.ListSite{}, false
		}
		return rapid.SampledFrom(c).Draw(t, "list-site"), true
	}
	anyList := func(gen.ListSite) bool { return true }

	switch k := rapid.IntRange(0, 23).Draw(t, "fault"); k {
	case 0, 1, 2, 3, 4: // wrong type in an expression slot
		var cands []int
		for i, s := range slots {
			if len(wrongTypes(s)) > 0 && !s.RefParam {
				cands = append(cands, i)
			}
		}
		if len(cands) == 0 {
			return nil
		}
		s := slots[rapid.SampledFrom(cands).Draw(t, "slot")]
		u := rapid.SampledFrom(wrongTypes(s)).Draw(t, "wrong-type")
		want := "?"
		if s.Want != nil {
			want = s.Want.Src()
		}
		s.Set(closedLit(u))
		return out("wrong-type:"+u.Src()+"-for-"+want, slotSite(s))
	case 5, 6: // undeclared name in an expression slot
		var cands []int
		for i, s := range slots {
			if s.Kind != "cast-operand" {
				cands = append(cands, i)
			}
		}
		if len(cands) == 0 {
			return nil
		}
		s := slots[rapid.SampledFrom(cands).Draw(t, "slot")]
		ty := s.Want
		if ty == nil {
			ty = gen.TZahl
		}
		s.Set(&gen.Ref{Name: "zzunbekannt", T: ty})
		return out("undeclared-name", slotSite(s))
	case 7: // use after the declaring block ended
		ls, ok := pickList(anyList)
		if !ok {
			return nil
		}
		blk := rapid.SampledFrom([]string{"Wenn wahr, dann:\n\tDie Zahl zzlokal ist 1.", ":\n\tDie Zahl zzlokal ist 1.", "Für jede Zahl zzlokal von 1 bis 2, mache:\n\tDie Zahl zzinnen ist 1.", "Wiederhole:\n\tDie Zahl zzlokal ist 1.\n1 Mal."}).Draw(t, "scope-form")
		use := rapid.SampledFrom([]string{"Die Zahl zznach ist zzlokal plus 1.", "Speichere 2 in zzlokal.", "Erhöhe zzlokal um 1."}).Draw(t, "use-form")
		insert(ls, &gen.Raw{Text: blk}, &gen.Raw{Text: use})
		return out("use-after-scope", siteOf(ls))
	case 8: // redeclaration of a variable in one scope
		ls, ok := pickList(anyList)
		if !ok {
			return nil
		}
		second := rapid.SampledFrom([]string{"Die Zahl zzdoppelt ist 2.", "Der Text zzdoppelt ist \"x\".", "Die Konstante zzdoppelt ist 3."}).Draw(t, "redecl-form")
		if ls.Depth > 1 || ls.InFunc != nil {
			second = rapid.SampledFrom([]string{"Die Zahl zzdoppelt ist 2.", "Der Text zzdoppelt ist \"x\"."}).Draw(t, "redecl-form-local")
		}
		insert(ls, &gen.Raw{Text: "Die Zahl zzdoppelt ist 1.\n" + second})
		return out("redeclaration:variable", siteOf(ls))
	case 9: // redeclared function / Kombination / parameter names
		switch rapid.IntRange(0, 2).Draw(t, "redecl-kind") {
		case 0:
			if len(prog.Funcs) == 0 {
				return nil
			}
			f := *rapid.SampledFrom(prog.Funcs).Draw(t, "dupf")
			f.Words = append([]string{f.Words[0] + "zwei"}, f.Words[1:]...) // only the name clashes, not the alias
			prog.Funcs = append(prog.Funcs, &f)
			return out("redeclaration:function", "declarations")
		case 1:
			if len(prog.Structs) == 0 {
				return nil
			}
			prog.Prelude = append(prog.Prelude, &gen.Raw{Text: "Wir nennen die Kombination aus\n\tder Zahl zzx,\neinen " + prog.Structs[0].Name + ", und erstellen sie so:\n\t\"ein anderes " + prog.Structs[0].Name + "\""})
			return out("redeclaration:Kombination", "declarations")
		default:
			prog.Prelude = append(prog.Prelude, &gen.Raw{Text: "Die Funktion zzpp mit den Parametern a und a vom Typ Zahl und Zahl, gibt eine Zahl zurück, macht:\n\tGib a zurück.\nUnd kann so benutzt werden:\n\t\"zzpp <a>\""})
			return out("redeclaration:parameter", "declarations")
		}
	case 10: // assignment to a Konstante
		prog.Prelude = append(prog.Prelude, &gen.Raw{Text: "Die Konstante ZZK ist 5."})
		ls, ok := pickList(anyList)
		if !ok {
			return nil
		}
		form := rapid.SampledFrom([]string{"Speichere 2 in ZZK.", "Erhöhe ZZK um 1.", "Verringere ZZK um 1.", "Speichere ZZK plus 1 in ZZK."}).Draw(t, "const-form")
		insert(ls, &gen.Raw{Text: form})
		return out("assign-to-Konstante", siteOf(ls))
	case 11: // Konstante as Referenz argument
		if rapid.IntRange(0, 2).Draw(t, "cross-overloads") == 0 {
			// two overloads of one alias whose Referenz parameter sits at different positions: only the second
			// matches the argument types, and it takes the Konstante by Referenz
			f1 := "Die Funktion zzeins mit den Parametern ziel und wert vom Typ Zahlen Referenz und Text, gibt nichts zurück, macht:\n\tSpeichere 0 in ziel.\nUnd kann so benutzt werden:\n\t\"zzgib <ziel> nach <wert>\"\n"
			f2 := "Die Funktion zzzwei mit den Parametern wert und ziel vom Typ Zahl und Zahlen Referenz, gibt nichts zurück, macht:\n\tSpeichere wert in ziel.\nUnd kann so benutzt werden:\n\t\"zzgib <wert> nach <ziel>\"\n"
			if rapid.Bool().Draw(t, "decl-order") {
				f1, f2 = f2, f1
			}
			prog.Prelude = append(prog.Prelude, &gen.Raw{Text: "Die Konstante ZZK ist 10.\nDie Zahl zzx ist 42.\n" + f1 + f2})
			ls, ok := pickList(anyList)
			if !ok {
				return nil
			}
			insert(ls, &gen.Raw{Text: "zzgib zzx nach ZZK."})
			return out("Konstante-as-Referenz:cross-overloads", siteOf(ls))
		}
		if rapid.Bool().Draw(t, "overloaded") {
			prog.Prelude = append(prog.Prelude, &gen.Raw{Text: "Die Konstante ZZK ist 5.\n" +
				"Die Funktion zzwert mit dem Parameter a vom Typ Text, gibt eine Zahl zurück, macht:\n\tGib 1 zurück.\nUnd kann so benutzt werden:\n\t\"zznimm <a>\"\n" +
				"Die Funktion zzwert2 mit dem Parameter a vom Typ Zahl, gibt eine Zahl zurück, macht:\n\tGib a zurück.\nUnd kann so benutzt werden:\n\t\"zznimm <a>\"\n" +
				"Die Funktion zzref mit dem Parameter a vom Typ Zahlen Referenz, gibt eine Zahl zurück, macht:\n\tSpeichere 1 in a.\n\tGib a zurück.\nUnd kann so benutzt werden:\n\t\"zznimm <a>\""})
			prog.Main = append(prog.Main, &gen.Raw{Text: "Die Zahl zzres ist (zznimm ZZK)."})
			in := out("Konstante-as-Referenz:overloaded-alias", "main end")
			in.acceptIf = "zzwert2"
			return in
		}
		prog.Prelude = append(prog.Prelude, &gen.Raw{Text: "Die Konstante ZZK ist 5.\nDie Funktion zzref mit dem Parameter a vom Typ Zahlen Referenz, gibt nichts zurück, macht:\n\tSpeichere 1 in a.\nUnd kann so benutzt werden:\n\t\"zzsetze <a>\""})
		ls, ok := pickList(anyList)
		if !ok {
			return nil
		}
		insert(ls, &gen.Raw{Text: "zzsetze ZZK."})
		return out("Konstante-as-Referenz", siteOf(ls))
	case 12: // break / continue outside a loop
		ls, ok := pickList(func(l gen.ListSite) bool { return l.LoopDepth == 0 })
		if !ok {
			return nil
		}
		form := rapid.SampledFrom([]string{"Verlasse die Schleife.", "Fahre mit der Schleife fort.", "Wenn wahr, verlasse die Schleife.", "Wenn wahr, dann:\n\tFahre mit der Schleife fort."}).Draw(t, "brk-form")
		insert(ls, &gen.Raw{Text: form})
		return out("break-continue-outside-loop", siteOf(ls))
	case 13: // value-returning function without final return
		var cands []*gen.Func
		for _, f := range prog.Funcs {
			if f.Ret != nil {
				cands = append(cands, f)
			}
		}
		if len(cands) == 0 {
			prog.Prelude = append(prog.Prelude, &gen.Raw{Text: "Die Funktion zzohne mit dem Parameter a vom Typ Zahl, gibt eine Zahl zurück, macht:\n\tWenn a größer als 1 ist, gib 1 zurück.\n\tDie Zahl zzq ist a.\nUnd kann so benutzt werden:\n\t\"zzohne <a>\""})
			return out("missing-final-return", "declarations (function with early return only)")
		}
		f := rapid.SampledFrom(cands).Draw(t, "noret")
		f.Body = append([]gen.Stmt(nil), f.Body[:len(f.Body)-1]...)
		f.Body = append(f.Body, &gen.Raw{Text: "Die Zahl zzende ist 1."})
		return out("missing-final-return", "function body")
	case 14: // return at global level
		ls, ok := pickList(func(l gen.ListSite) bool { return l.InFunc == nil })
		if !ok {
			return nil
		}
		insert(ls, &gen.Raw{Text: rapid.SampledFrom([]string{"Gib 1 zurück.", "Verlasse die Funktion."}).Draw(t, "gret")})
		return out("return-outside-function", siteOf(ls))
	case 15: // wrong-typed returned value / return value in a function that returns nothing
		ls, ok := pickList(func(l gen.ListSite) bool { return l.InFunc != nil && l.InFunc.Ret == nil })
		if !ok {
			return nil
		}
		insert(ls, &gen.Raw{Text: "Wenn falsch, gib 1 zurück."})
		return out("return-value-in-void-function", siteOf(ls))
	case 16, 17: // non-public declarations of another module
		files["zzmodul.ddp"] = modSrc
		prog.Prelude = append([]gen.Stmt{&gen.Raw{Text: "Binde \"zzmodul\" ein."}}, prog.Prelude...)
		ls, ok := pickList(anyList)
		if !ok {
			return nil
		}
		form := rapid.SampledFrom([]string{"Die Zahl zzuse ist (zz geheim).", "Die Zahl zzuse ist zzprivat plus 1.", "Der ZZKombi zzk ist ein ZZKombi.\nDie Zahl zzuse ist (zzversteckt von zzk).", "Der ZZKombi zzk ist ein ZZKombi.\nSpeichere 5 in zzversteckt von zzk.", "Speichere 1 in zzprivat."}).Draw(t, "priv-form")
		insert(ls, &gen.Raw{Text: form})
		return out("private-use:"+strings.Fields(form)[len(strings.Fields(form))-1], siteOf(ls))
	case 18: // selective import of a private / missing name
		files["zzmodul.ddp"] = modSrc
		imp := rapid.SampledFrom([]string{"Binde zzgeheim aus \"zzmodul\" ein.", "Binde zzprivat aus \"zzmodul\" ein.", "Binde zzoffen und zzgeheim aus \"zzmodul\" ein.", "Binde zzgibtsnicht aus \"zzmodul\" ein.", "Binde \"zzgibtsnicht\" ein."}).Draw(t, "imp-form")
		prog.Prelude = append([]gen.Stmt{&gen.Raw{Text: imp}}, prog.Prelude...)
		return out("import-of-private-or-missing-name", "imports")
	case 19: // wrong article
		ls, ok := pickList(anyList)
		if !ok {
			return nil
		}
		ty := rapid.SampledFrom([]*gen.Type{gen.TZahl, gen.TKomma, gen.TText, gen.TBool, gen.TChar, gen.TByte, zl}).Draw(t, "art-type")
		form := rapid.IntRange(0, 2).Draw(t, "art-form")
		switch form {
		case 0:
			insert(ls, &gen.VarDecl{Name: "zzartikel", T: ty, Init: closedLit(ty), BadArticle: true})
		case 1:
			bad := "einem"
			if !ty.Fem() {
				bad = "einer"
			}
			insert(ls, &gen.Raw{Text: fmt.Sprintf("%s %s zzartikel ist der Standardwert von %s %s.", ty.Article(), ty.Src(), bad, ty.SrcDeclined())})
		default:
			jede := "jeden"
			if !ty.Fem() {
				jede = "jede"
			}
			if ty.K == gen.KList {
				return nil
			}
			insert(ls, &gen.Raw{Text: fmt.Sprintf("Für %s %s zze in (eine leere %s), mache:\n\tDie Zahl zzq ist 1.", jede, ty.SrcDeclined(), gen.ListOf(ty).Src())})
		}
		return out("wrong-article", siteOf(ls))
	case 20: // Kombination / type declared inside a function or block, public variable in a local scope
		ls, ok := pickList(func(l gen.ListSite) bool { return l.Depth > 1 || l.InFunc != nil })
		if !ok {
			return nil
		}
		form := rapid.SampledFrom([]string{"Wir nennen die Kombination aus\n\tder Zahl zzx,\neinen ZZLokal, und erstellen sie so:\n\t\"ein ZZLokal\"", "Wir nennen eine Zahl auch eine ZZGanz.", "Wir definieren eine ZZNummer als eine Zahl.", "Die öffentliche Zahl zzpub ist 1.",
			"Die Funktion zzinnen gibt eine Zahl zurück, macht:\n\tGib 1 zurück.\nUnd kann so benutzt werden:\n\t\"zz innen\""}).Draw(t, "local-decl")
		insert(ls, &gen.Raw{Text: form})
		return out("declaration-in-local-scope:"+strings.Fields(form)[0]+strings.Fields(form)[1], siteOf(ls))
	case 21: // wrong-typed operands with variables: self-contained statements
		ls, ok := pickList(anyList)
		if !ok {
			return nil
		}
		form := rapid.SampledFrom([]string{
			"Der Text zzt ist \"a\".\nDie Zahl zzz ist zzt plus 1.", "Die Zahl zzz ist 1.\nDer Wahrheitswert zzw ist zzz und wahr.", "Die Zahl zzz ist 1.\nDie Zahl zzl ist die Länge von zzz.",
			"Der Text zzt ist \"a\".\nDer Wahrheitswert zzw ist zzt größer als 1 ist.", "Die Zahl zzz ist 1.\nDer Wahrheitswert zzw ist zzz gleich \"1\" ist.", "Die Kommazahl zzk ist 1,5.\nDie Zahl zzz ist zzk modulo 2.",
			"Die Zahl zzz ist 1.\nDie Zahl zzy ist zzz an der Stelle 1.", "Der Text zzt ist \"ab\".\nDer Buchstabe zzc ist zzt an der Stelle \"1\".", "Die Zahl zzz ist 1.\nDie Zahl zzf ist zzfeld von zzz.",
			"Die Zahlen Liste zzl ist eine Liste, die aus 1, \"zwei\" besteht.", "Der Text zzt ist \"a\".\nNegiere zzt.", "Die Zahl zzz ist nicht 1.", "Der Wahrheitswert zzw ist -wahr.",
		}).Draw(t, "op-form")
		insert(ls, &gen.Raw{Text: form})
		return out("inadmissible-operand", siteOf(ls))
	case 22: // wrong number / kind of arguments
		prog.Prelude = append(prog.Prelude, &gen.Raw{Text: "Die Funktion zzzwei mit den Parametern a und b vom Typ Zahl und Text, gibt eine Zahl zurück, macht:\n\tGib a zurück.\nUnd kann so benutzt werden:\n\t\"zzzwei <a> und <b>\""})
		ls, ok := pickList(anyList)
		if !ok {
			return nil
		}
		form := rapid.SampledFrom([]string{"Die Zahl zzr ist (zzzwei \"x\" und 1).", "Die Zahl zzr ist (zzzwei 1 und 2).", "Die Zahl zzr ist (zzzwei 2,5 und \"x\").", "Der Text zzr ist (zzzwei 1 und \"x\")."}).Draw(t, "arg-form")
		insert(ls, &gen.Raw{Text: form})
		return out("wrong-typed-argument-or-result", siteOf(ls))
	default: // Referenz argument that is not assignable
		prog.Prelude = append(prog.Prelude, &gen.Raw{Text: "Die Funktion zzref mit dem Parameter a vom Typ Zahlen Referenz, gibt nichts zurück, macht:\n\tSpeichere 1 in a.\nUnd kann so benutzt werden:\n\t\"zzsetze <a>\""})
		ls, ok := pickList(anyList)
		if !ok {
			return nil
		}
		form := rapid.SampledFrom([]string{"zzsetze 5.", "zzsetze (1 plus 2).", "Der Text zzt ist \"a\".\nzzsetze zzt."}).Draw(t, "ref-form")
		insert(ls, &gen.Raw{Text: form})
		return out("Referenz-argument-not-assignable-or-wrong-type", siteOf(ls))
	}
}

func TestFaultInjection(t *testing.T) {
	defer vf.AfterCheck(t)
	vf.Checks(20000, 250000)
	cliBudget := vf.Pick(20, 300)
	rapid.Check(t, func(t *rapid.T) {
		cfg := gen.Config{MaxStmts: rapid.IntRange(2, 7).Draw(t, "size"), MaxDepth: rapid.IntRange(1, 2).Draw(t, "depth"), Funcs: 2, Structs: true}
		prog, _ := gen.Generate(t, cfg)
		base := (&gen.Printer{}).Program(prog)
		if res := fe.ParseSource("main.ddp", []byte(base)); !res.Accepted() {
			vf.Count("discard:base-rejected(generator)")
			t.Skip("base rejected")
		}
		in := inject(t, prog)
		if in == nil {
			vf.Count("discard:no-site-for-fault")
			t.Skip("no site")
		}
		c := Case{Fault: in.fault, Site: in.site, Files: in.files, AcceptIfCallee: in.acceptIf}
		if c.Files["main.ddp"] == base {
			vf.Count("discard:injection-had-no-effect")
			t.Skip("no effect")
		}
		if cliBudget > 0 && ddp.Work != "" && rapid.IntRange(0, 99).Draw(t, "cli") < 2 {
			c.CLI = true
			cliBudget--
		}
		if vf.Report(t, judge(c)) {
			return
		}
		cls := c.Fault
		if i := strings.Index(cls, ":"); i > 0 {
			cls = cls[:i]
		}
		names := make([]string, 0, len(c.Files))
		for n := range c.Files {
			names = append(names, n)
		}
		sort.Strings(names)
		vf.Case(c.Fault+"\x00"+c.Site+"\x00"+c.Files["main.ddp"], true, "fault:"+cls, "site:"+siteClass(c.Site))
		vf.Sample(cls, map[string]any{"fault": c.Fault, "site": c.Site, "main.ddp": c.Files["main.ddp"], "files": names})
	})
}
