// C06: out-of-domain operations stop with a Laufzeitfehler, never silently.
//
// One generated program per specification (container kind x element type x access form x placement x
// optimisation level); the program takes length and index/bounds from its command line, so one build serves
// a whole (length, index[, second bound]) grid and nothing can be folded at compile time.
// Oracle: a model written from the property text says for every grid point whether the access is inside the
// domain (then the exact output) or outside (then: Laufzeitfehler on stderr, exit status 1, nothing after the
// marker on stdout).
package c06

import (
	"encoding/json"
	"fmt"
	"os"
	"path/filepath"
	"regexp"
	"sort"
	"strings"
	"testing"
	"unicode/utf8"

	"verif/ddp"
	"verif/fe"
	"verif/vf"

	_ "pgregory.net/rapid" // the driver passes -rapid.* flags to every check binary
)

type Spec struct {
	Family string `json:"family"` // list | text | cast | todo
	Elem   string `json:"elem,omitempty"`
	Form   string `json:"form"`
	Place  string `json:"place"`
	Level  int    `json:"level"`
	Repl   string `json:"replacement,omitempty"` // text: replacement character
	Asked  string `json:"asked,omitempty"`       // cast: the type asked for
}

func (s Spec) key() string {
	return fmt.Sprintf("%s/%s/%s/%s/O%d/%s%s", s.Family, s.Elem, s.Form, s.Place, s.Level, s.Repl, s.Asked)
}

type Case struct {
	Spec   Spec       `json:"spec"`
	Points [][3]int64 `json:"points"` // (n, i, j)
	Source string     `json:"source,omitempty"`
}

const (
	maxI = int64(9223372036854775807)
	minI = -maxI - 1
)

// ---------------------------------------------------------------- element types

type elemT struct {
	list     string                // spelling of the list type
	ref      string                // spelling of a Referenz parameter of the element type
	expr     func(k string) string // DDP expression for element number k
	show     func(x string) string // DDP expression that is printed for an element expression x
	repl     string                // DDP expression assigned by the assign / refarg forms
	shown    func(k int64) string  // model: what is printed for element k
	replS    string                // model: what is printed for repl
	compound func(k int64) string  // model: element k after 'Erhöhe ... um 1' (nil: not numeric)
}

const alphabet = "aä€😀b"

func alphaAt(k int64) string { return string([]rune(alphabet)[(k-1)%5]) }

var elems = map[string]elemT{
	"Zahl": {list: "Zahlen Liste", ref: "Zahlen Referenz", expr: func(k string) string { return "(" + k + " mal 10)" }, show: func(x string) string { return x }, repl: "555",
		shown: func(k int64) string { return fmt.Sprint(k * 10) }, replS: "555", compound: func(k int64) string { return fmt.Sprint(k*10 + 1) }},
	"Kommazahl": {list: "Kommazahlen Liste", ref: "Kommazahlen Referenz", expr: func(k string) string { return "(" + k + " plus 0,5)" }, show: func(x string) string { return x }, repl: "5,25",
		shown: func(k int64) string { return fmt.Sprintf("%d,5", k) }, replS: "5,25", compound: func(k int64) string { return fmt.Sprintf("%d,5", k+1) }},
	"Byte": {list: "Byte Liste", ref: "Byte Referenz", expr: func(k string) string { return "(" + k + " als Byte)" }, show: func(x string) string { return x }, repl: "(200 als Byte)",
		shown: func(k int64) string { return fmt.Sprint(k) }, replS: "200", compound: func(k int64) string { return fmt.Sprint(k + 1) }},
	"Wahrheitswert": {list: "Wahrheitswert Liste", ref: "Wahrheitswert Referenz", expr: func(k string) string { return "((" + k + " modulo 2) gleich 1 ist)" }, show: func(x string) string { return x }, repl: "wahr",
		shown: func(k int64) string {
			if k%2 == 1 {
				return "wahr"
			}
			return "falsch"
		}, replS: "wahr"},
	"Buchstabe": {list: "Buchstaben Liste", ref: "Buchstaben Referenz", expr: func(k string) string {
		return "(\"" + alphabet + "\" an der Stelle (((" + k + " minus 1) modulo 5) plus 1))"
	}, show: func(x string) string { return x }, repl: "'Z'", shown: alphaAt, replS: "Z"},
	"Text": {list: "Text Liste", ref: "Text Referenz", expr: func(k string) string { return "(\"t\" verkettet mit (" + k + " als Text) verkettet mit \"ä\")" }, show: func(x string) string { return x }, repl: "\"neu\"",
		shown: func(k int64) string { return fmt.Sprintf("t%dä", k) }, replS: "neu"},
	"Punkt": {list: "Punkt Liste", ref: "Punkt Referenz", expr: func(k string) string { return "(ein Punkt mit x (" + k + " mal 10))" }, show: func(x string) string { return "(x von " + x + ")" }, repl: "(ein Punkt mit x 555)",
		shown: func(k int64) string { return fmt.Sprint(k * 10) }, replS: "555"},
}

var elemNames = []string{"Zahl", "Kommazahl", "Byte", "Wahrheitswert", "Buchstabe", "Text", "Punkt"}

// ---------------------------------------------------------------- Variable casts

type castT struct {
	name  string // type spelling after 'als'
	canon string // aliases erased, definitions nominal
	value string // DDP expression of that static type
	shown string // printed after a successful conversion
	show  func(x string) string
}

var castTypes = []castT{
	{"Zahl", "Zahl", "3", "3", nil},
	{"Kommazahl", "Kommazahl", "2,5", "2,5", nil},
	{"Byte", "Byte", "(200 als Byte)", "200", nil},
	{"Wahrheitswert", "Wahrheitswert", "wahr", "wahr", nil},
	{"Buchstabe", "Buchstabe", "'q'", "q", nil},
	{"Text", "Text", "\"txt\"", "txt", nil},
	{"Zahlen Liste", "Zahlen Liste", "(eine Liste, die aus 1, 2, 3 besteht)", "3", func(x string) string { return "(die Länge von " + x + ")" }},
	{"Text Liste", "Text Liste", "(eine Liste, die aus \"a\", \"b\" besteht)", "2", func(x string) string { return "(die Länge von " + x + ")" }},
	{"Buchstaben Liste", "Buchstaben Liste", "(eine Liste, die aus 'x', 'y' besteht)", "2", func(x string) string { return "(die Länge von " + x + ")" }},
	{"Punkt", "Punkt", "(ein Punkt mit x 4)", "4", func(x string) string { return "(x von " + x + ")" }},
	{"Nummer", "Nummer", "(5 als Nummer)", "5", func(x string) string { return "(" + x + " als Zahl)" }},
	{"Ganzzahl", "Zahl", "ganz", "7", nil},
	{"Reihe", "Reihe", "((eine Liste, die aus 1, 2 besteht) als Reihe)", "2", func(x string) string { return "(die Länge von (" + x + " als Zahlen Liste))" }},
}

func castByName(n string) (castT, int) {
	for i, c := range castTypes {
		if c.name == n {
			return c, i
		}
	}
	panic("unknown cast type " + n)
}

// ---------------------------------------------------------------- program text

const header = `Binde "Duden/Ausgabe" ein.
Binde "Duden/Laufzeit" ein.

Wir nennen die Kombination aus
	der Zahl x mit Standardwert 0,
einen Punkt, und erstellen sie so:
	"ein Punkt mit x <x>"

Wir nennen eine Zahl auch eine Ganzzahl.
Wir definieren eine Nummer als eine Zahl.
Wir definieren eine Reihe als eine Zahlen Liste.

`

const readArgs = `Die Text Liste argumente ist die Befehlszeilenargumente.
Die Zahl n ist (argumente an der Stelle 2) als Zahl.
Die Zahl i ist (argumente an der Stelle 3) als Zahl.
Die Zahl j ist (argumente an der Stelle 4) als Zahl.
`

const startMark, endMark = "MARKE-ANFANG", "MARKE-SCHLUSS"

func indent(s string, n int) string {
	pre := strings.Repeat("\t", n)
	var sb strings.Builder
	for _, l := range strings.SplitAfter(s, "\n") {
		if strings.TrimSpace(l) != "" {
			sb.WriteString(pre)
		}
		sb.WriteString(l)
	}
	return sb.String()
}

func article(typ string) string {
	if strings.HasSuffix(typ, "Liste") || typ == "Zahl" || typ == "Kommazahl" || typ == "Reihe" || typ == "Nummer" || typ == "Ganzzahl" || typ == "Variable" || typ == "Kiste" {
		return "Die"
	}
	return "Der"
}

// Source builds the program of a specification.
func Source(s Spec) string {
	switch s.Family {
	case "cast":
		return castSource(s)
	case "todo":
		return todoSource(s)
	}
	var ctype, empty string
	var build func(cl string) string
	var show func(x string) string
	var e elemT
	if s.Family == "list" {
		e = elems[s.Elem]
		ctype, empty, show = e.list, "eine leere "+e.list, e.show
		build = func(cl string) string {
			return "Für jede Zahl k von 1 bis n, mache:\n\tSpeichere " + cl + " verkettet mit " + e.expr("k") + " in " + cl + ".\n"
		}
	} else {
		ctype, empty, show = "Text", "\"\"", func(x string) string { return x }
		build = func(cl string) string {
			return "Für jede Zahl k von 1 bis n, mache:\n\tSpeichere " + cl + " verkettet mit (\"" + alphabet + "\" an der Stelle (((k minus 1) modulo 5) plus 1)) in " + cl + ".\n"
		}
	}
	dump := func(cl string) string { // prints the container
		if s.Family == "text" {
			return "Schreibe (die Länge von " + cl + ") auf eine Zeile.\nSchreibe " + cl + " auf eine Zeile.\n"
		}
		return "Schreibe (die Länge von " + cl + ") auf eine Zeile.\nFür jede Zahl k von 1 bis (die Länge von " + cl + "), mache:\n\tSchreibe " + show("("+cl+" an der Stelle k)") + " auf eine Zeile.\n"
	}
	// the access under test on container lvalue cl (rv: spelling usable as an expression)
	access := func(cl, rv string) string {
		switch s.Form {
		case "read":
			return "Schreibe " + show("("+rv+" an der Stelle i)") + " auf eine Zeile.\n"
		case "assign":
			return "Speichere " + e.repl + " in " + cl + " an der Stelle i.\n"
		case "compound":
			return "Erhöhe " + cl + " an der Stelle i um 1.\n"
		case "refarg":
			return "setze (" + cl + " an der Stelle i).\n"
		case "replace":
			return "Speichere '" + s.Repl + "' in " + cl + " an der Stelle i.\n"
		case "slice":
			return article(ctype) + " " + ctype + " teil ist " + rv + " im Bereich von i bis j.\n" + dump("teil")
		case "from":
			return article(ctype) + " " + ctype + " teil ist " + rv + " ab dem i. Element.\n" + dump("teil")
		case "to":
			return article(ctype) + " " + ctype + " teil ist " + rv + " bis zum j. Element.\n" + dump("teil")
		}
		panic("bad form " + s.Form)
	}
	var sb strings.Builder
	sb.WriteString(header)
	if s.Family == "list" {
		fmt.Fprintf(&sb, "Die Funktion setze mit dem Parameter r vom Typ %s, gibt nichts zurück, macht:\n\tSpeichere %s in r.\nUnd kann so benutzt werden:\n\t\"setze <r>\"\n\n", e.ref, e.repl)
	}
	fmt.Fprintf(&sb, "Wir nennen die Kombination aus\n\tder Zahl nummer mit Standardwert 1,\n\t%s %s inhalt mit Standardwert %s,\neine Kiste, und erstellen sie so:\n\t\"eine Kiste mit nummer <nummer>\"\n\n",
		map[string]string{"Die": "der", "Der": "dem"}[article(ctype)], ctype, empty)
	refSpelling := ctype + " Referenz"
	if strings.HasSuffix(ctype, "Liste") {
		refSpelling = ctype + "n Referenz"
	}
	decl := article(ctype) + " " + ctype + " c ist " + empty + ".\n"
	mark := "Schreibe \"" + startMark + "\" auf eine Zeile.\n"
	end := "Schreibe \"" + endMark + "\" auf eine Zeile.\n"
	switch s.Place {
	case "global":
		sb.WriteString(readArgs + decl + build("c") + mark + access("c", "c") + dump("c") + end)
	case "local":
		sb.WriteString("Die Funktion hauptteil gibt nichts zurück, macht:\n" + indent(readArgs+decl+build("c")+mark+access("c", "c")+dump("c")+end, 1) + "Und kann so benutzt werden:\n\t\"starte den hauptteil\"\n\nstarte den hauptteil.\n")
	case "field":
		cl := "inhalt von kiste"
		sb.WriteString(readArgs + "Die Kiste kiste ist eine Kiste mit nummer 4.\n" + build(cl) + mark + access(cl, "("+cl+")") + dump("("+cl+")") + end)
	case "refparam", "valparam":
		ps := refSpelling
		if s.Place == "valparam" {
			ps = ctype
		}
		fmt.Fprintf(&sb, "Die Funktion bearbeite mit den Parametern p, i und j vom Typ %s, Zahl und Zahl, gibt nichts zurück, macht:\n%sUnd kann so benutzt werden:\n\t\"bearbeite <p> mit <i> und <j>\"\n\n", ps, indent(access("p", "p")+dump("p"), 1))
		sb.WriteString(readArgs + decl + build("c") + mark + "bearbeite c mit i und j.\n" + dump("c") + end)
	case "variable": // the container lives in a Variable, converted back for the access (rvalue forms only)
		sb.WriteString(readArgs + decl + build("c") + "Die Variable v ist c.\n" + mark + access("c", "(v als "+ctype+")") + dump("c") + end)
	case "loop": // the access happens in the second iteration of a loop, after output of the first
		sb.WriteString(readArgs + decl + build("c") + mark + "Für jede Zahl runde von 1 bis 2, mache:\n\tWenn runde gleich 1 ist, Schreibe \"runde\" auf eine Zeile.\n\tSonst:\n" + indent(access("c", "c"), 2) + dump("c") + end)
	default:
		panic("bad place " + s.Place)
	}
	return sb.String()
}

func castSource(s Spec) string {
	asked, _ := castByName(s.Asked)
	var sb strings.Builder
	sb.WriteString(header)
	body := readArgs + "Die Ganzzahl ganz ist 7.\nDie Variable v ist 0.\n"
	for k, h := range castTypes {
		body += fmt.Sprintf("Wenn n gleich %d ist, Speichere %s in v.\n", k, h.value)
	}
	body += "Schreibe \"" + startMark + "\" auf eine Zeile.\n"
	show := asked.show
	if show == nil {
		show = func(x string) string { return x }
	}
	switch s.Form {
	case "init":
		body += article(asked.name) + " " + asked.name + " ziel ist v als " + asked.name + ".\nSchreibe " + show("ziel") + " auf eine Zeile.\n"
	case "expr":
		body += "Schreibe " + show("(v als "+asked.name+")") + " auf eine Zeile.\n"
	case "element": // the Variable is an element of a Variablen Liste
		body += "Die Variablen Liste vl ist eine Liste, die aus v, v besteht.\nSchreibe " + show("((vl an der Stelle 2) als "+asked.name+")") + " auf eine Zeile.\n"
	}
	body += "Schreibe \"" + endMark + "\" auf eine Zeile.\n"
	if s.Place == "local" {
		sb.WriteString("Die Funktion hauptteil gibt nichts zurück, macht:\n" + indent(body, 1) + "Und kann so benutzt werden:\n\t\"starte den hauptteil\"\n\nstarte den hauptteil.\n")
	} else {
		sb.WriteString(body)
	}
	return sb.String()
}

// '...' is reached iff i == 3
func todoSource(s Spec) string {
	var sb strings.Builder
	sb.WriteString(header)
	mark := "Schreibe \"" + startMark + "\" auf eine Zeile.\n"
	end := "Schreibe \"" + endMark + "\" auf eine Zeile.\n"
	switch s.Place {
	case "global":
		sb.WriteString(readArgs + mark + "Wenn i gleich 3 ist, dann:\n\t...\n" + end)
	case "function":
		sb.WriteString("Die Funktion offen mit dem Parameter z vom Typ Zahl, gibt eine Zahl zurück, macht:\n\tWenn z gleich 3 ist, dann:\n\t\t...\n\tGib z plus 1 zurück.\nUnd kann so benutzt werden:\n\t\"das offene <z>\"\n\n" +
			readArgs + mark + "Schreibe (das offene i) auf eine Zeile.\n" + end)
	case "loop":
		sb.WriteString(readArgs + mark + "Für jede Zahl k von 1 bis n, mache:\n\tSchreibe k auf eine Zeile.\n\tWenn k gleich i ist, dann:\n\t\t...\n" + end)
	}
	return sb.String()
}

// ---------------------------------------------------------------- model

type outcome struct {
	stdout string
	rte    bool
}

func lines(ls []string) string {
	if len(ls) == 0 {
		return ""
	}
	return strings.Join(ls, "\n") + "\n"
}

func clamp(v, n int64) int64 {
	if v < 1 {
		return 1
	}
	if v > n {
		return n
	}
	return v
}

// Expect is the model: what the program of s must do for the arguments (n, i, j).
func Expect(s Spec, n, i, j int64) outcome {
	start := startMark + "\n"
	fail := func(pre string) outcome { return outcome{start + pre, true} }
	switch s.Family {
	case "todo":
		switch s.Place {
		case "global":
			if i == 3 {
				return fail("")
			}
			return outcome{start + endMark + "\n", false}
		case "function":
			if i == 3 {
				return fail("")
			}
			return outcome{start + fmt.Sprint(i+1) + "\n" + endMark + "\n", false} // i+1 does not overflow on the grid used
		default:
			var ls []string
			for k := int64(1); k <= n; k++ {
				ls = append(ls, fmt.Sprint(k))
				if k == i {
					return fail(lines(ls))
				}
			}
			return outcome{start + lines(ls) + endMark + "\n", false}
		}
	case "cast":
		asked, _ := castByName(s.Asked)
		held := castTypes[0]
		if n >= 0 && n < int64(len(castTypes)) {
			held = castTypes[n]
		}
		if held.canon != asked.canon {
			return fail("")
		}
		return outcome{start + held.shown + "\n" + endMark + "\n", false}
	}
	// containers
	var cont []string
	var e elemT
	if s.Family == "list" {
		e = elems[s.Elem]
		for k := int64(1); k <= n; k++ {
			cont = append(cont, e.shown(k))
		}
	} else {
		for k := int64(1); k <= n; k++ {
			cont = append(cont, alphaAt(k))
		}
	}
	dump := func(c []string) string {
		if s.Family == "text" {
			return fmt.Sprintf("%d\n%s\n", len(c), strings.Join(c, ""))
		}
		return fmt.Sprintf("%d\n", len(c)) + lines(c)
	}
	pre := ""
	if s.Place == "loop" {
		pre = "runde\n"
	}
	inDomain := i >= 1 && i <= n
	after := append([]string(nil), cont...) // the caller's container after the access
	var result string
	switch s.Form {
	case "read":
		if !inDomain {
			return fail(pre)
		}
		result = cont[i-1] + "\n"
	case "assign", "refarg", "compound", "replace":
		if !inDomain {
			return fail(pre)
		}
		switch s.Form {
		case "compound":
			after[i-1] = e.compound(i)
		case "replace":
			after[i-1] = s.Repl
		default:
			after[i-1] = e.replS
		}
	case "slice", "from", "to":
		from, to := i, j
		if s.Form == "from" {
			to = n
		}
		if s.Form == "to" {
			from = 1
		}
		var part []string
		if n > 0 { // an empty container slices to an empty one
			from, to = clamp(from, n), clamp(to, n)
			if to < from {
				return fail(pre)
			}
			part = cont[from-1 : to]
		}
		result = dump(part)
	}
	switch s.Place {
	case "valparam": // the callee works on and prints its copy, the caller's container is unchanged
		return outcome{start + pre + result + dump(after) + dump(cont) + endMark + "\n", false}
	case "refparam":
		return outcome{start + pre + result + dump(after) + dump(after) + endMark + "\n", false}
	}
	return outcome{start + pre + result + dump(after) + endMark + "\n", false}
}

// ---------------------------------------------------------------- grid

func indexValues(n int64) []int64 {
	vs := []int64{}
	for v := int64(-2); v <= n+2; v++ {
		vs = append(vs, v)
	}
	return append(vs, 1<<31, -(1 << 31), 1<<32+1, 1<<32+n, maxI, minI, minI+1, maxI-1)
}

func boundValues(n int64) []int64 {
	vs := []int64{}
	for v := int64(-1); v <= n+2; v++ {
		vs = append(vs, v)
	}
	return append(vs, 1<<32+1, maxI, minI)
}

func twoIndex(s Spec) bool { return s.Form == "slice" }

// Grid enumerates the arguments for a specification.
func Grid(s Spec, thorough bool) [][3]int64 {
	var pts [][3]int64
	switch s.Family {
	case "cast":
		for n := int64(0); n < int64(len(castTypes)); n++ {
			pts = append(pts, [3]int64{n, 0, 0})
		}
		return pts
	case "todo":
		for _, n := range []int64{0, 4} {
			for _, i := range []int64{-1, 0, 1, 2, 3, 4, 5, maxI - 1, minI} {
				pts = append(pts, [3]int64{n, i, 0})
			}
		}
		return pts
	}
	ns := []int64{0, 1, 2, 5}
	if thorough {
		ns = []int64{0, 1, 2, 3, 5, 7}
	}
	for _, n := range ns {
		switch {
		case twoIndex(s):
			for _, i := range boundValues(n) {
				for _, j := range boundValues(n) {
					pts = append(pts, [3]int64{n, i, j})
				}
			}
		case s.Form == "to":
			for _, j := range indexValues(n) {
				pts = append(pts, [3]int64{n, 0, j})
			}
		default:
			for _, i := range indexValues(n) {
				pts = append(pts, [3]int64{n, i, 0})
			}
		}
	}
	return pts
}

// points at which the sanitizer build is used: indices 0, 1, length, length+1 and one far value
func boundaryPoint(s Spec, n, i, j int64) bool {
	if s.Family == "cast" || s.Family == "todo" {
		return true
	}
	near := func(v int64) bool { return v == 0 || v == 1 || v == n || v == n+1 || v == maxI }
	if twoIndex(s) {
		return near(i) && near(j)
	}
	if s.Form == "to" {
		return near(j)
	}
	return near(i)
}

func indexClass(n, v int64) string {
	switch {
	case v <= -(1<<31) || v >= 1<<31:
		return "far"
	case v < 1:
		return "below"
	case v == 1 && n >= 1:
		return "first"
	case v == n && n >= 1:
		return "last"
	case v == n+1:
		return "one-past"
	case v > n+1:
		return "beyond"
	}
	return "inside"
}

// ---------------------------------------------------------------- specifications

func allSpecs() []Spec {
	var specs []Spec
	for _, lvl := range []int{0, 1, 2} {
		for _, el := range elemNames {
			for _, place := range []string{"global", "local", "field", "refparam", "valparam", "variable", "loop"} {
				for _, form := range []string{"read", "assign", "compound", "refarg", "slice", "from", "to"} {
					if form == "compound" && elems[el].compound == nil {
						continue
					}
					if place == "variable" && (form == "assign" || form == "compound" || form == "refarg") {
						continue
					}
					specs = append(specs, Spec{Family: "list", Elem: el, Form: form, Place: place, Level: lvl})
				}
			}
		}
		for _, place := range []string{"global", "local", "field", "refparam", "valparam", "variable", "loop"} {
			for _, form := range []string{"read", "slice", "from", "to"} {
				specs = append(specs, Spec{Family: "text", Form: form, Place: place, Level: lvl})
			}
			if place != "variable" {
				for _, r := range []string{"Z", "ß", "€", "😀"} {
					specs = append(specs, Spec{Family: "text", Form: "replace", Place: place, Level: lvl, Repl: r})
				}
			}
		}
		for _, a := range castTypes {
			for _, form := range []string{"init", "expr", "element"} {
				for _, place := range []string{"global", "local"} {
					specs = append(specs, Spec{Family: "cast", Form: form, Place: place, Level: lvl, Asked: a.name})
				}
			}
		}
		for _, place := range []string{"global", "function", "loop"} {
			specs = append(specs, Spec{Family: "todo", Form: "reach", Place: place, Level: lvl})
		}
	}
	return specs
}

// ---------------------------------------------------------------- judge

func firstDiff(a, b string) string {
	al, bl := strings.Split(a, "\n"), strings.Split(b, "\n")
	for k := 0; k < len(al) || k < len(bl); k++ {
		var x, y string
		if k < len(al) {
			x = al[k]
		}
		if k < len(bl) {
			y = bl[k]
		}
		if x != y {
			return fmt.Sprintf("output line %d: expected %q, got %q", k+1, x, y)
		}
	}
	return "no difference"
}

// verdict for one run
var literalRe = regexp.MustCompile(`"([^"\n]{3,})"`)

// the message ends with the content of one of the program's own text literals (>= 3 characters)
func endsWithLiteral(stderr, src string) bool {
	msg := strings.TrimRight(stderr, "\n")
	for _, m := range literalRe.FindAllStringSubmatch(src, -1) {
		if strings.HasSuffix(msg, m[1]) {
			return true
		}
	}
	return false
}

func checkRun(s Spec, src string, n, i, j int64, want outcome, r ddp.Result) (sig, why string) {
	switch {
	case ddp.IsSanitizerReport(r):
		return "sanitizer", "sanitizer report"
	case r.Signal != "":
		return "signal", "killed by " + r.Signal
	case ddp.IsSegfault(r):
		return "segfault", "segmentation fault"
	}
	if want.rte {
		switch {
		case r.Exit == 0:
			return "silent", "outside the domain but the program ended normally; " + firstDiff(want.stdout, r.Stdout)
		case r.Exit != 1:
			return "exit-status", fmt.Sprintf("outside the domain: exit status %d instead of 1", r.Exit)
		case !strings.HasPrefix(strings.TrimLeft(r.Stderr, "\n"), "Laufzeitfehler"):
			return "no-message", "exit status 1 without a Laufzeitfehler message on standard error"
		case strings.Contains(r.Stderr, "MARKE") || endsWithLiteral(r.Stderr, src) || !utf8.ValidString(r.Stderr) || strings.ContainsAny(r.Stderr, "\x00\x01\x02\x03\x04\x05\x06\x07\x08"):
			return "garbled-message", "the Laufzeitfehler message is followed by unrelated bytes of the program"
		case r.Stdout != want.stdout:
			return "output-before-error", "standard output before the Laufzeitfehler differs; " + firstDiff(want.stdout, r.Stdout)
		}
		return "", ""
	}
	switch {
	case r.Exit != 0 && ddp.IsLaufzeitfehler(r):
		return "spurious-error", "inside the domain but the program stopped with a Laufzeitfehler"
	case r.Exit != 0:
		return "exit-status", fmt.Sprintf("inside the domain: exit status %d", r.Exit)
	case r.Stdout != want.stdout:
		return "wrong-value", "inside the domain, wrong result; " + firstDiff(want.stdout, r.Stdout)
	case strings.TrimSpace(r.Stderr) != "":
		return "stderr-noise", "inside the domain but something was written to standard error"
	}
	return "", ""
}

func judge(c Case) (*vf.Failure, string, map[string]int) {
	src := Source(c.Spec)
	c.Source = src
	if res := fe.ParseSource("c06.ddp", []byte(src)); !res.Accepted() {
		return nil, "frontend-rejected: " + ddp.Trunc(fmt.Sprint(res.Diags), 300), nil
	}
	dir := ddp.TempDir("verif-c06-")
	defer os.RemoveAll(dir)
	os.WriteFile(filepath.Join(dir, "p.ddp"), []byte(src), 0o644)
	obj, exe := filepath.Join(dir, "p.o"), filepath.Join(dir, "p")
	cr := ddp.Compile(dir, "p.ddp", obj, "-O", fmt.Sprint(c.Spec.Level))
	if cr.TimedOut {
		return nil, "inconclusive-build-timeout", nil
	}
	if cr.Exit != 0 {
		return nil, "build-fails(C02): " + ddp.Trunc(cr.Stderr+cr.Stdout, 300), nil
	}
	// two executables: the plain runtime for the whole grid, the sanitizer build (whose start is 20-50 times
	// slower) for the boundary points, where an access just outside the domain would happen
	exeAsan := exe + "-asan"
	if lr := ddp.LinkObject(dir, obj, exe, false, false); lr.Exit != 0 || lr.TimedOut {
		return nil, "inconclusive-link: " + ddp.Trunc(lr.Stderr, 300), nil
	}
	if lr := ddp.LinkObject(dir, obj, exeAsan, true, false); lr.Exit != 0 || lr.TimedOut {
		return nil, "inconclusive-link: " + ddp.Trunc(lr.Stderr, 300), nil
	}
	classes := map[string]int{}
	for _, p := range c.Points {
		n, i, j := p[0], p[1], p[2]
		want := Expect(c.Spec, n, i, j)
		use := exe
		if boundaryPoint(c.Spec, n, i, j) || len(c.Points) == 1 {
			use = exeAsan
			classes["sanitizer-run"]++
		}
		r := ddp.ExecNoLeak(dir, use, fmt.Sprint(n), fmt.Sprint(i), fmt.Sprint(j))
		if r.TimedOut {
			classes["inconclusive-run-timeout"]++
			continue
		}
		cls := "in-domain"
		if want.rte {
			cls = "out-of-domain"
		}
		idx := i
		if c.Spec.Form == "to" {
			idx = j
		}
		classes[cls+"/"+indexClass(n, idx)]++
		if sig, why := checkRun(c.Spec, src, n, i, j, want, r); sig != "" {
			one := Case{Spec: c.Spec, Points: [][3]int64{p}, Source: src}
			detail := fmt.Sprintf("%s\nspecification %s, arguments n=%d i=%d j=%d\nrun: %s\nexpected: laufzeitfehler=%v stdout=%q\nstdout: %q\nstderr: %q\n--- source\n%s",
				why, c.Spec.key(), n, i, j, r.String(), want.rte, want.stdout, ddp.Trunc(r.Stdout, 600), ddp.Trunc(r.Stderr, 600), src)
			return vf.NewFailure(fmt.Sprintf("C06:%s:%s/%s/%s", sig, c.Spec.Family, c.Spec.Form, map[bool]string{true: c.Spec.Elem, false: c.Spec.Asked}[c.Spec.Family != "cast"]), detail, one), "violation", classes
		}
	}
	return nil, "ok", classes
}

func TestMain(m *testing.M) {
	vf.Main(m, vf.Def{
		ID:    "C06",
		Level: "exploration",
		Rule: "enumeration of access specifications {list of Zahl/Kommazahl/Byte/Wahrheitswert/Buchstabe/Text/Kombination, Text with 1-4 byte characters} x {read, assignment target, compound-assignment target, Referenz argument, character replacement by a 1/2/3/4-byte character, slice 'im Bereich von', 'ab dem', 'bis zum'} x placement {global, local of a function, Kombination field, Referenz parameter, value parameter, inside a Variable, second loop iteration} x {-O 0,1,2}, Variable conversions for every (held, asked) pair of 13 types (incl. alias, type definitions of Zahl and of a list) in three positions, and '...' in three positions; " +
			"each program reads length and index/bounds from its command line and is run on the grid lengths {0,1,2,5} (thorough {0,1,2,3,5,7}) x indices {-2..n+2, +-2^31, 2^32+1, 2^32+n, 2^63-1, 2^63-2, -2^63, -2^63+1} (slices: both bounds over {-1..n+2, 2^32+1, 2^63-1, -2^63}); " +
			"oracle: a model of the statement - inside 1..length: exact output, exit 0, silent stderr; outside (or crossed slice bounds after clamping, or a Variable holding another type, or '...' reached): exit status 1, 'Laufzeitfehler' message on stderr that contains nothing of the program's own constants, stdout exactly what was printed before, no sanitizer report; " +
			"non-trivial = a (specification, index class) pair with the class in {below, first, inside, last, one-past, beyond, far} x {in-domain, out-of-domain}; quick: one seed-chosen specification per (family, form, element / asked type) class, thorough: all of them at -O 0 and -O 2 and those with the global placement at -O 1",
		Assumptions: []string{
			"slice clamping rule (both bounds clamped to 1..length, then crossed bounds are an error, an empty container slices to empty) is the documented behaviour the statement refers to",
			"every grid point runs against the plain runtime; the points with an index in {0, 1, length, length+1, 2^63-1} (both bounds for slices), all Variable conversions and all '...' programs additionally decide which run uses the AddressSanitizer build of runtime and stdlib; accesses performed by generated code itself are only judged by their result",
		},
		Judge: func(raw json.RawMessage) *vf.Failure {
			var c Case
			if err := json.Unmarshal(raw, &c); err != nil {
				return vf.NewFailure("harness:bad-case", err.Error(), nil)
			}
			f, _, _ := judge(c)
			return f
		},
	})
}

func TestGrid(t *testing.T) {
	defer vf.AfterCheck(t)
	specs := allSpecs()
	k, n := vf.Shard()
	perm := vf.Perm(len(specs), vf.BaseSeed()*7919+11)
	if !vf.Thorough() {
		// stratified: one specification per (family, form, element / asked type) class, placement, level and
		// position chosen by the seed
		seen := map[string]bool{}
		var pick []int
		for _, idx := range perm {
			s := specs[idx]
			cl := s.Family + "/" + s.Form + "/" + s.Elem + s.Asked + s.Repl
			if s.Family == "cast" {
				cl = "cast/" + s.Asked
			}
			if !seen[cl] {
				seen[cl] = true
				pick = append(pick, idx)
			}
		}
		if sc := vf.Scale(); sc < 1 {
			pick = pick[:max(1, int(float64(len(pick))*sc))]
		}
		perm = pick
	}
	budget := len(perm)
	vf.SetExtra("specifications_total", len(specs))
	vf.SetExtra("specifications_this_run", budget)
	if vf.Thorough() {
		vf.SetExhaustive(true)
	}
	for pos, idx := range perm[:budget] {
		if pos%n != k {
			continue
		}
		s := specs[idx]
		if vf.Thorough() && s.Level == 1 && s.Place != "global" && s.Family != "todo" {
			continue // -O 1 only in the plain placement: -O 0 and -O 2 are the two code generator paths
		}
		c := Case{Spec: s, Points: Grid(s, vf.Thorough())}
		f, outcome, classes := judge(c)
		if outcome != "ok" && outcome != "violation" {
			key := outcome
			if p := strings.Index(key, ":"); p > 0 {
				key = key[:p]
			}
			vf.Count(key)
			vf.Sample(key, map[string]any{"spec": s, "why": outcome})
			if strings.HasPrefix(outcome, "frontend-rejected") {
				t.Logf("generator defect: %s: %s", s.key(), outcome)
			}
			continue
		}
		var cls []string
		for cl, cnt := range classes {
			if cl == "sanitizer-run" {
				vf.Count("runs-with-sanitizer-build", int64(cnt))
				continue
			}
			cls = append(cls, cl)
			vf.Case(s.key()+"|"+cl, !strings.HasPrefix(cl, "inconclusive"), s.Family+"/"+s.Form, cl)
			vf.Evals(int64(cnt) - 1)
		}
		sort.Strings(cls)
		vf.Sample(s.Family+"/"+s.Form, map[string]any{"spec": s, "grid_points": len(c.Points), "classes": cls})
		if f != nil {
			vf.AddFailure(f)
		}
	}
}
