package c06

import (
	"os"
	"testing"
)

func TestDumpWitness(t *testing.T) {
	if os.Getenv("C06_DUMP") == "" {
		t.Skip()
	}
	os.WriteFile(os.Getenv("C06_DUMP"), []byte(Source(Spec{Family: "cast", Form: "init", Place: "global", Level: 0, Asked: "Zahl"})), 0o644)
}
