// C19: every literal denotes its written value.
//
// Layer 1 (in-process, TestVerdictAndValue): generated literal spellings - integers around the 64-bit limits,
// decimal-comma literals with up to 25 digits (halfway cases), Buchstaben and Texte over an alphabet with
// quotes, backslash, escape letters, non-escape letters, line break, tab and 1-4 byte characters (exhaustive
// for short bodies) - are placed in a declaration followed by a sentinel declaration and parsed by the real
// frontend. An independent reader decides valid + value or invalid; the frontend must agree on the verdict and
// the AST literal must hold exactly the value (Kommazahlen: bit-exact against a big.Rat rounding).
// Layer 2 (end to end, TestRuntimeValue): batches of valid literals are compiled by the real kddp and printed
// at run time (Buchstaben also as Zahl, Texte with their length, list literals); the output must be the value.
package c19

import (
	"encoding/json"
	"fmt"
	"math"
	"math/big"
	"os"
	"path/filepath"
	"strings"
	"testing"
	"unicode/utf8"

	"github.com/DDP-Projekt/Kompilierer/src/ast"
	"pgregory.net/rapid"
	"verif/ddp"
	"verif/fe"
	"verif/ref"
	"verif/vf"
)

type Lit struct {
	Kind string `json:"kind"` // int | float | char | text
	Src  string `json:"src"`  // the spelling including quotes
}

type Case struct {
	Layer string `json:"layer"` // verdict | runtime
	Lits  []Lit  `json:"lits"`
	Level int    `json:"level,omitempty"`
}

// ---------------------------------------------------------------- the independent reader

type value struct {
	valid bool
	skip  bool // the spelling is not one literal (e.g. an unescaped quote inside): not judged
	i     int64
	f     float64
	r     rune
	s     string
}

var escapes = map[rune]rune{'a': '\a', 'b': '\b', 'n': '\n', 'r': '\r', 't': '\t', '\\': '\\'}

func readBody(body string, quote rune) (string, bool, bool) { // value, valid, skip
	var out []rune
	rs := []rune(body)
	for k := 0; k < len(rs); k++ {
		c := rs[k]
		switch {
		case c == quote:
			return "", false, true // the literal ends here, what follows is something else
		case c == '\\':
			if k+1 >= len(rs) {
				return "", false, false // the backslash escapes the closing quote: the literal is not terminated
			}
			k++
			n := rs[k]
			if n == quote {
				out = append(out, quote)
			} else if e, ok := escapes[n]; ok {
				out = append(out, e)
			} else {
				return "", false, false
			}
		default:
			out = append(out, c)
		}
	}
	return string(out), true, false
}

func read(l Lit) value {
	switch l.Kind {
	case "int":
		n, ok := new(big.Int).SetString(l.Src, 10)
		if !ok {
			return value{skip: true}
		}
		if !n.IsInt64() {
			return value{}
		}
		return value{valid: true, i: n.Int64()}
	case "float":
		r, ok := new(big.Rat).SetString(strings.Replace(l.Src, ",", ".", 1))
		if !ok {
			return value{skip: true}
		}
		f, _ := r.Float64() // nearest double, ties to even
		if math.IsInf(f, 0) {
			return value{}
		}
		return value{valid: true, f: f}
	case "char":
		body := l.Src[1 : len(l.Src)-1]
		s, valid, skip := readBody(body, '\'')
		if skip || body == "" {
			return value{skip: skip, valid: false}
		}
		if !valid || utf8.RuneCountInString(s) != 1 {
			return value{}
		}
		r, _ := utf8.DecodeRuneInString(s)
		return value{valid: true, r: r}
	default:
		body := l.Src[1 : len(l.Src)-1]
		s, valid, skip := readBody(body, '"')
		return value{valid: valid, skip: skip, s: s}
	}
}

var typeOf = map[string]string{"int": "Die Zahl", "float": "Die Kommazahl", "char": "Der Buchstabe", "text": "Der Text"}

// ---------------------------------------------------------------- layer 1

func judgeVerdict(c Case) (*vf.Failure, string) {
	for _, l := range c.Lits {
		want := read(l)
		if want.skip {
			continue
		}
		src := typeOf[l.Kind] + " wert ist " + l.Src + ".\nDie Zahl danach ist 77.\n"
		res := fe.ParseSource("c19.ddp", []byte(src))
		if res.Panic != "" || res.Err != "" {
			return vf.NewFailure("C19:frontend-crash:"+l.Kind, fmt.Sprintf("literal %q: %s %s", l.Src, res.Panic, res.Err), Case{Layer: "verdict", Lits: []Lit{l}}), "violation"
		}
		one := Case{Layer: "verdict", Lits: []Lit{l}}
		if !want.valid {
			if res.Accepted() {
				return vf.NewFailure("C19:invalid-accepted:"+l.Kind, fmt.Sprintf("the %s literal %s is not a valid literal (out of range / unknown escape sequence / not one character) but the frontend accepted it without a diagnostic\n--- source\n%s", l.Kind, l.Src, src), one), "violation"
			}
			continue
		}
		if !res.Accepted() {
			return vf.NewFailure("C19:valid-rejected:"+l.Kind, fmt.Sprintf("the %s literal %s is valid but was rejected: %v\n--- source\n%s", l.Kind, l.Src, res.Diags, src), one), "violation"
		}
		// the value in the AST
		stmts := res.Module.Ast.Statements
		var got, exp string
		ok := false
		if len(stmts) == 2 {
			if ds, isDecl := stmts[0].(*ast.DeclStmt); isDecl {
				if vd, isVar := ds.Decl.(*ast.VarDecl); isVar {
					switch e := vd.InitVal.(type) {
					case *ast.IntLit:
						got, exp, ok = fmt.Sprint(e.Value), fmt.Sprint(want.i), l.Kind == "int" && e.Value == want.i
					case *ast.FloatLit:
						got, exp, ok = fmt.Sprintf("%v (bits %016x)", e.Value, math.Float64bits(e.Value)), fmt.Sprintf("%v (bits %016x)", want.f, math.Float64bits(want.f)), l.Kind == "float" && math.Float64bits(e.Value) == math.Float64bits(want.f)
					case *ast.CharLit:
						got, exp, ok = fmt.Sprintf("U+%04X", e.Value), fmt.Sprintf("U+%04X", want.r), l.Kind == "char" && e.Value == want.r
					case *ast.StringLit:
						got, exp, ok = fmt.Sprintf("%q", e.Value), fmt.Sprintf("%q", want.s), l.Kind == "text" && e.Value == want.s
					default:
						got = fmt.Sprintf("%T", vd.InitVal)
					}
				}
			}
		} else {
			got = fmt.Sprintf("%d statements instead of 2 (the literal swallowed or split the source)", len(stmts))
		}
		if !ok {
			return vf.NewFailure("C19:wrong-value:"+l.Kind, fmt.Sprintf("the %s literal %s denotes %s but the frontend reads %s\n--- source\n%s", l.Kind, l.Src, exp, got, src), one), "violation"
		}
	}
	return nil, "ok"
}

// ---------------------------------------------------------------- generators

var bodyAlphabet = []string{"\"", "'", "\\", "a", "b", "n", "r", "t", "x", " ", "\n", "\t", "ä", "€", "😀", "0"}

func genBody(t *rapid.T, maxLen int) string {
	n := rapid.IntRange(0, maxLen).Draw(t, "len")
	var sb strings.Builder
	for k := 0; k < n; k++ {
		sb.WriteString(rapid.SampledFrom(bodyAlphabet).Draw(t, "sym"))
	}
	return sb.String()
}

// a body that is valid by construction (escapes only from the table), for the runtime layer and as a positive bias
func genValidBody(t *rapid.T, quote string, maxLen int) string {
	n := rapid.IntRange(0, maxLen).Draw(t, "len")
	var sb strings.Builder
	for k := 0; k < n; k++ {
		switch rapid.IntRange(0, 9).Draw(t, "what") {
		case 0, 1, 2:
			sb.WriteString("\\" + rapid.SampledFrom([]string{"a", "b", "n", "r", "t", "\\", quote}).Draw(t, "esc"))
		default:
			s := rapid.SampledFrom(bodyAlphabet).Draw(t, "sym")
			if s == quote || s == "\\" {
				s = "\\" + s
			}
			sb.WriteString(s)
		}
	}
	return sb.String()
}

var intBoundary = []string{"0", "1", "9223372036854775807", "9223372036854775808", "9223372036854775806", "9223372036854775809", "18446744073709551615", "18446744073709551616", "18446744073709551617",
	"4294967295", "4294967296", "2147483648", "9007199254740993", "007", "00000000000000000000001", "99999999999999999999", "10000000000000000000", "9999999999999999999", "123456789012345678901234567890"}

func genInt(t *rapid.T) string {
	switch rapid.IntRange(0, 3).Draw(t, "intclass") {
	case 0:
		return rapid.SampledFrom(intBoundary).Draw(t, "ib")
	case 1: // around 2^63
		d := rapid.IntRange(-40, 40).Draw(t, "delta")
		return new(big.Int).Add(new(big.Int).Lsh(big.NewInt(1), 63), big.NewInt(int64(d))).String()
	default:
		n := rapid.IntRange(1, 21).Draw(t, "digits")
		return rapid.StringMatching(fmt.Sprintf("[0-9]{%d}", n)).Draw(t, "int")
	}
}

var floatBoundary = []string{"0,0", "0,1", "0,5", "1,0", "2,5", "0,30000000000000004", "9007199254740993,0", "9007199254740992,5", "1,0000000000000001", "1,00000000000000011102230246251565404236316680908203125",
	"1,00000000000000011102230246251565404236316680908203124", "1,00000000000000011102230246251565404236316680908203126", "0,000000000000000000000000000000000000000000001", "179769313486231570000000000000000000000,0", "4,9406564584124654", "123456789012345678901234567890,123456789", "0,1000000000000000055511151231257827", "5,0e3"}

func genFloat(t *rapid.T) string {
	if rapid.IntRange(0, 3).Draw(t, "floatclass") == 0 {
		s := rapid.SampledFrom(floatBoundary).Draw(t, "fb")
		if strings.ContainsAny(s, "e") {
			return "5,03"
		}
		return s
	}
	if rapid.IntRange(0, 19).Draw(t, "huge") == 0 { // around the largest double (309 digits before the comma)
		n := rapid.IntRange(306, 312).Draw(t, "hugedigits")
		return rapid.StringMatching(fmt.Sprintf("[1-9][0-9]{%d}", n-1)).Draw(t, "hugeint") + ",0"
	}
	a := rapid.StringMatching(fmt.Sprintf("[0-9]{%d}", rapid.IntRange(1, 25).Draw(t, "intdigits"))).Draw(t, "ipart")
	b := rapid.StringMatching(fmt.Sprintf("[0-9]{%d}", rapid.IntRange(1, 25).Draw(t, "fracdigits"))).Draw(t, "fpart")
	return a + "," + b
}

func genLit(t *rapid.T) Lit {
	switch rapid.IntRange(0, 9).Draw(t, "kind") {
	case 0, 1:
		return Lit{"int", genInt(t)}
	case 2, 3:
		return Lit{"float", genFloat(t)}
	case 4, 5:
		if rapid.Bool().Draw(t, "valid-bias") {
			return Lit{"char", "'" + genValidBody(t, "'", 1) + "'"}
		}
		return Lit{"char", "'" + genBody(t, 3) + "'"}
	default:
		if rapid.Bool().Draw(t, "valid-bias") {
			return Lit{"text", "\"" + genValidBody(t, "\"", 8) + "\""}
		}
		return Lit{"text", "\"" + genBody(t, 6) + "\""}
	}
}

func nontrivial(l Lit) bool {
	if l.Kind == "int" || l.Kind == "float" {
		digits := strings.TrimLeft(strings.Replace(l.Src, ",", "", 1), "0")
		if len(digits) >= 17 {
			return true
		}
		return false
	}
	return strings.ContainsAny(l.Src, "\\\n\t") || len(l.Src) != utf8.RuneCountInString(l.Src)
}

func record(l Lit) {
	v := read(l)
	cls := "valid"
	if v.skip {
		cls = "not-one-literal(skipped)"
	} else if !v.valid {
		cls = "invalid"
	}
	vf.Case(l.Kind+"\x00"+l.Src, nontrivial(l) && !v.skip, l.Kind+":"+cls)
}

func TestVerdictAndValue(t *testing.T) {
	defer vf.AfterCheck(t)
	vf.Checks(40000, 1500000)
	rapid.Check(t, func(t *rapid.T) {
		l := genLit(t)
		record(l)
		f, _ := judgeVerdict(Case{Layer: "verdict", Lits: []Lit{l}})
		if vf.Report(t, f) {
			return
		}
		if nontrivial(l) {
			vf.Sample(l.Kind, l)
		}
	})
}

// every Buchstaben / Text body over the alphabet up to length 3 (quick) / 4 (thorough), sharded
func TestExhaustiveShort(t *testing.T) {
	defer vf.AfterCheck(t)
	k, n := vf.Shard()
	maxLen := vf.Pick(3, 4)
	count := 0
	var walk func(prefix string, depth int)
	walk = func(prefix string, depth int) {
		count++
		if count%n == k {
			for _, l := range []Lit{{"char", "'" + prefix + "'"}, {"text", "\"" + prefix + "\""}} {
				record(l)
				if f, _ := judgeVerdict(Case{Layer: "verdict", Lits: []Lit{l}}); f != nil && !vf.IsKnown(f.Signature) {
					vf.AddFailure(f)
				}
			}
		}
		if depth == maxLen {
			return
		}
		for _, s := range bodyAlphabet {
			walk(prefix+s, depth+1)
		}
	}
	walk("", 0)
	vf.SetExtra("exhaustive_bodies_all_shards", count)
	if vf.Thorough() {
		vf.SetExhaustive(true)
	}
}

// ---------------------------------------------------------------- layer 2

func runtimeProgram(lits []Lit) (src, expect string) {
	var sb, ex strings.Builder
	sb.WriteString("Binde \"Duden/Ausgabe\" ein.\n\n")
	for k, l := range lits {
		v := read(l)
		mark := fmt.Sprintf("|%d|", k)
		switch l.Kind {
		case "int":
			fmt.Fprintf(&sb, "Schreibe %s auf eine Zeile.\n", l.Src)
			fmt.Fprintf(&ex, "%d\n", v.i)
			fmt.Fprintf(&sb, "Schreibe (eine Liste, die aus %s, 1 besteht) auf eine Zeile.\n", l.Src)
			fmt.Fprintf(&ex, "%d, 1\n", v.i)
		case "float":
			fmt.Fprintf(&sb, "Schreibe %s auf eine Zeile.\n", l.Src)
			ex.WriteString(ref.FormatFloat(v.f) + "\n")
		case "char":
			fmt.Fprintf(&sb, "Schreibe (%s als Zahl) auf eine Zeile.\nSchreibe %s auf eine Zeile.\n", l.Src, l.Src)
			fmt.Fprintf(&ex, "%d\n%s\n", v.r, string(v.r))
		default:
			fmt.Fprintf(&sb, "Schreibe (die Länge von %s) auf eine Zeile.\nSchreibe %s auf eine Zeile.\n", l.Src, l.Src)
			fmt.Fprintf(&ex, "%d\n%s\n", utf8.RuneCountInString(v.s), v.s)
			fmt.Fprintf(&sb, "Schreibe ((eine Liste, die aus %s, \"z\" besteht) an der Stelle 1) auf eine Zeile.\n", l.Src)
			fmt.Fprintf(&ex, "%s\n", v.s)
		}
		fmt.Fprintf(&sb, "Schreibe \"%s\" auf eine Zeile.\n", mark)
		ex.WriteString(mark + "\n")
	}
	sb.WriteString("Schreibe wahr auf eine Zeile.\nSchreibe falsch auf eine Zeile.\n")
	ex.WriteString("wahr\nfalsch\n")
	return sb.String(), ex.String()
}

func judgeRuntime(c Case) (*vf.Failure, string) {
	var lits []Lit
	for _, l := range c.Lits {
		if v := read(l); v.valid && !v.skip {
			lits = append(lits, l)
		}
	}
	src, expect := runtimeProgram(lits)
	dir := ddp.TempDir("verif-c19-")
	defer os.RemoveAll(dir)
	os.WriteFile(filepath.Join(dir, "p.ddp"), []byte(src), 0o644)
	cr := ddp.Compile(dir, "p.ddp", filepath.Join(dir, "p"), "-O", fmt.Sprint(c.Level))
	if cr.TimedOut {
		return nil, "inconclusive-build-timeout"
	}
	if cr.Exit != 0 {
		return vf.NewFailure("C19:runtime:build-fails", fmt.Sprintf("a program of valid literals does not build:\n%s\n--- source\n%s", ddp.Trunc(cr.Stderr+cr.Stdout, 1500), src), c), "violation"
	}
	r := ddp.Exec(dir, filepath.Join(dir, "p"), "")
	if r.TimedOut {
		return nil, "inconclusive-run-timeout"
	}
	if r.Exit != 0 || r.Stdout != expect {
		// find the first literal whose section differs
		which := "?"
		gs, es := strings.Split(r.Stdout, "|\n"), strings.Split(expect, "|\n")
		for k := 0; k < len(es) && k < len(lits); k++ {
			if k >= len(gs) || gs[k] != es[k] {
				which = fmt.Sprintf("%s literal %s: expected output %q, got %q", lits[k].Kind, lits[k].Src, es[k], func() string {
					if k < len(gs) {
						return gs[k]
					}
					return "<nothing>"
				}())
				c = Case{Layer: "runtime", Lits: []Lit{lits[k]}, Level: c.Level}
				break
			}
		}
		kind := "?"
		if len(c.Lits) == 1 {
			kind = c.Lits[0].Kind
		}
		return vf.NewFailure("C19:runtime:wrong-value:"+kind, fmt.Sprintf("-O %d, %s; %s\n--- source\n%s", c.Level, which, r.String(), src), c), "violation"
	}
	return nil, "ok"
}

func TestRuntimeValue(t *testing.T) {
	defer vf.AfterCheck(t)
	vf.Checks(96, 2400)
	rapid.Check(t, func(t *rapid.T) {
		n := rapid.IntRange(20, 40).Draw(t, "batch")
		var lits []Lit
		for len(lits) < n {
			var l Lit
			switch rapid.IntRange(0, 9).Draw(t, "kind") {
			case 0, 1:
				l = Lit{"int", genInt(t)}
			case 2, 3:
				l = Lit{"float", genFloat(t)}
			case 4, 5:
				l = Lit{"char", "'" + genValidBody(t, "'", 1) + "'"}
			default:
				l = Lit{"text", "\"" + genValidBody(t, "\"", 8) + "\""}
			}
			if v := read(l); v.valid && !v.skip {
				lits = append(lits, l)
			}
		}
		c := Case{Layer: "runtime", Lits: lits, Level: rapid.SampledFrom([]int{0, 1, 2}).Draw(t, "level")}
		for _, l := range lits {
			vf.Case("rt\x00"+l.Kind+"\x00"+l.Src, nontrivial(l), "runtime:"+l.Kind)
		}
		f, outcome := judgeRuntime(c)
		if vf.Report(t, f) {
			return
		}
		if outcome != "ok" {
			vf.Count(outcome)
		}
	})
}

func TestMain(m *testing.M) {
	vf.Main(m, vf.Def{
		ID:    "C19",
		Level: "exploration",
		Rule: "layer 1: generated literal spellings - integers (1-21 digits, leading zeros, 2^63 +- 40, 2^64 +- 1), decimal-comma literals (1-25 digits on each side, halfway cases of double rounding, values beyond the double range), Buchstaben and Texte over the alphabet {\" ' \\ a b n r t x space LF TAB ä € 😀 0} (random up to 8 symbols; every body up to 3 / thorough 4 symbols exhaustively) - in a declaration followed by a sentinel declaration, parsed by the real frontend; an independent reader (big.Int / big.Rat rounding / escape table from the statement) decides valid + value or invalid: invalid => rejected with a diagnostic, valid => accepted, exactly two statements, and the AST literal holds exactly the value (Kommazahlen bit-exact); " +
			"layer 2: batches of 20-40 valid literals compiled by the real kddp at a drawn -O level and printed at run time (integers also inside a list literal, Buchstaben also 'als Zahl', Texte with length and through a list literal, Wahrheitswerte): stdout must be the values; " +
			"non-trivial = literal with an escape sequence, a line break / tab, a multi-byte character or >= 17 significant digits; distinct by spelling",
		Assumptions: []string{
			"a body with an unescaped quote of its own kind is not one literal and is not judged",
			"a sign is an operator, not part of the literal: -2^63 cannot be written as a literal and 2^63 is out of range",
			"at run time a Kommazahl is observed through its 16 significant digit rendering; bit exactness is judged on the AST constant",
		},
		Judge: func(raw json.RawMessage) *vf.Failure {
			var c Case
			if err := json.Unmarshal(raw, &c); err != nil {
				return vf.NewFailure("harness:bad-case", err.Error(), nil)
			}
			if c.Layer == "runtime" {
				f, _ := judgeRuntime(c)
				return f
			}
			f, _ := judgeVerdict(c)
			return f
		},
	})
}
