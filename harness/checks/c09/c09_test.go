// C09 — calls resolve to the longest type-matching alias; arguments bind by name.
package c09

import (
	"encoding/json"
	"fmt"
	"sort"
	"strings"
	"testing"

	"github.com/DDP-Projekt/Kompilierer/src/ast"
	"pgregory.net/rapid"

	"verif/fe"
	"verif/vf"
)

// ---------------------------------------------------------------- model

type Param struct {
	Name string `json:"name"`
	Type string `json:"type"` // Zahl | Kommazahl | Text | Wahrheitswert | Zahlen Liste
	Ref  bool   `json:"ref,omitempty"`
}
type Item struct {
	Word  string `json:"word,omitempty"`
	Param int    `json:"param"`
	Neg   bool   `json:"neg,omitempty"` // the <!nicht> marker
}
type Fn struct {
	Name     string  `json:"name"`
	Mod      string  `json:"mod"` // main | lib
	Params   []Param `json:"params"`
	Pattern  []Item  `json:"pattern"`
	RetsBool bool    `json:"rets_bool"`
}
type Arg struct {
	Src        string `json:"src"`
	Type       string `json:"type"`
	Assignable bool   `json:"assignable"`
	Ident      string `json:"ident,omitempty"`
	Int        *int64 `json:"int,omitempty"`
}
type Call struct {
	Shape   []Item `json:"shape"` // the target's pattern (words + placeholder positions)
	Args    []Arg  `json:"args"`  // one per placeholder, in pattern order
	Negated bool   `json:"negated"`
}
type Case struct {
	Fns   []Fn   `json:"fns"`
	Calls []Call `json:"calls"`
}

func isGeneric(typ string) bool { return typ == "T" || typ == "T Liste" }

func (f Fn) generic() bool {
	for _, p := range f.Params {
		if isGeneric(p.Type) {
			return true
		}
	}
	return false
}

func paramSrc(p Param) string {
	if !p.Ref {
		return p.Type
	}
	switch p.Type {
	case "T Liste":
		return "T Listen Referenz"
	case "Zahl":
		return "Zahlen Referenz"
	case "Kommazahl":
		return "Kommazahlen Referenz"
	case "Zahlen Liste":
		return "Zahlen Listen Referenz"
	}
	return p.Type + " Referenz"
}

func fnSrc(f Fn) string {
	var sb strings.Builder
	pub := ""
	if f.Mod == "lib" {
		pub = "öffentliche "
	}
	if f.generic() {
		pub += "generische "
	}
	fmt.Fprintf(&sb, "Die %sFunktion %s ", pub, f.Name)
	switch len(f.Params) {
	case 0:
	case 1:
		fmt.Fprintf(&sb, "mit dem Parameter %s vom Typ %s, ", f.Params[0].Name, paramSrc(f.Params[0]))
	default:
		var names, types []string
		for _, p := range f.Params {
			names = append(names, p.Name)
			types = append(types, paramSrc(p))
		}
		n := len(names)
		fmt.Fprintf(&sb, "mit den Parametern %s und %s vom Typ %s und %s, ", strings.Join(names[:n-1], ", "), names[n-1], strings.Join(types[:n-1], ", "), types[n-1])
	}
	if f.RetsBool {
		sb.WriteString("gibt einen Wahrheitswert zurück, macht:\n\tGib wahr zurück.\n")
	} else {
		sb.WriteString("gibt eine Zahl zurück, macht:\n\tGib 1 zurück.\n")
	}
	sb.WriteString("Und kann so benutzt werden:\n\t\"")
	for i, it := range f.Pattern {
		if i > 0 {
			sb.WriteString(" ")
		}
		switch {
		case it.Neg:
			sb.WriteString("<!nicht>")
		case it.Word != "":
			sb.WriteString(it.Word)
		default:
			sb.WriteString("<" + f.Params[it.Param].Name + ">")
		}
	}
	sb.WriteString("\"\n\n")
	return sb.String()
}

// key identifies an alias for duplicate detection: words + (type, ref) at placeholders; negation marker removed
func aliasKeys(f Fn) []string {
	var plain, neg []string
	hasNeg := false
	for _, it := range f.Pattern {
		switch {
		case it.Neg:
			hasNeg = true
			neg = append(neg, "nicht")
		case it.Word != "":
			plain = append(plain, it.Word)
			neg = append(neg, it.Word)
		default:
			p := f.Params[it.Param]
			k := fmt.Sprintf("<%s,%v>", p.Type, p.Ref)
			plain = append(plain, k)
			neg = append(neg, k)
		}
	}
	ks := []string{strings.Join(plain, " ")}
	if hasNeg {
		ks = append(ks, strings.Join(neg, " "))
	}
	return ks
}

func render(c Case) (files map[string]string, callVars []string) {
	var lib, main strings.Builder
	hasLib := false
	for _, f := range c.Fns {
		if f.Mod == "lib" {
			hasLib = true
			lib.WriteString(fnSrc(f))
		}
	}
	if hasLib {
		main.WriteString("Binde \"lib\" ein.\n\n")
	}
	for _, f := range c.Fns {
		if f.Mod != "lib" {
			main.WriteString(fnSrc(f))
		}
	}
	main.WriteString("Die Zahl vz ist 1.\nDie Zahl vz2 ist 2.\nDie Kommazahl vk ist 1,5.\nDer Text vt ist \"t\".\nDer Wahrheitswert vw ist wahr.\nDie Zahlen Liste vl ist eine Liste, die aus 1, 2 besteht.\n\n")
	for i, cl := range c.Calls {
		var parts []string
		ai := 0
		for _, it := range cl.Shape {
			switch {
			case it.Neg:
				if cl.Negated {
					parts = append(parts, "nicht")
				}
			case it.Word != "":
				parts = append(parts, it.Word)
			default:
				parts = append(parts, cl.Args[ai].Src)
				ai++
			}
		}
		v := fmt.Sprintf("res%d", i)
		callVars = append(callVars, v)
		fmt.Fprintf(&main, "Die Variable %s ist (%s).\n", v, strings.Join(parts, " "))
	}
	files = map[string]string{"main.ddp": main.String()}
	if hasLib {
		files["lib.ddp"] = lib.String()
	}
	return files, callVars
}

// predict: which function must the call resolve to? ("" = no candidate type-matches -> rejected; "?" = tie)
func predict(c Case, cl Call) (callee string, negExpected bool, nCandidates int) {
	type cand struct {
		f       Fn
		refs    int
		generic bool
		ngen    int // number of parameters whose type contains a type parameter
	}
	var ok []cand
	for _, f := range c.Fns {
		// the call's token shape must equal the pattern's shape; with or without the negation word
		var pat []Item
		hasNeg := false
		for _, it := range f.Pattern {
			if it.Neg {
				hasNeg = true
				if cl.Negated {
					pat = append(pat, Item{Word: "nicht"})
				}
				continue
			}
			pat = append(pat, it)
		}
		if cl.Negated && !hasNeg {
			// the call contains the word "nicht": the pattern needs a literal word there (none of ours has one)
			continue
		}
		var shape []Item
		for _, it := range cl.Shape {
			if it.Neg {
				if cl.Negated {
					shape = append(shape, Item{Word: "nicht"})
				}
				continue
			}
			shape = append(shape, it)
		}
		if len(pat) != len(shape) {
			continue
		}
		match := true
		ai := 0
		refs := 0
		typed := true
		bound := "" // what the type parameter T is bound to
		for i := range pat {
			switch {
			case pat[i].Word != "" && shape[i].Word != "":
				match = match && pat[i].Word == shape[i].Word
			case pat[i].Word == "" && shape[i].Word == "":
				p := f.Params[pat[i].Param]
				a := cl.Args[ai]
				want := p.Type
				if isGeneric(p.Type) { // T matches any type, T Liste any list type; one binding per call
					elem := a.Type
					if p.Type == "T Liste" {
						if a.Type != "Zahlen Liste" {
							typed = false
						}
						elem = "Zahl"
					}
					if bound != "" && bound != elem {
						typed = false
					}
					bound = elem
					want = a.Type
				}
				if want != a.Type || (p.Ref && !a.Assignable) {
					typed = false
				}
				if p.Ref {
					refs++
				}
			default:
				match = false
			}
			if shape[i].Word == "" {
				ai++
			}
		}
		if !match {
			continue
		}
		nCandidates++
		if typed {
			ng := 0
			for _, p := range f.Params {
				if isGeneric(p.Type) {
					ng++
				}
			}
			ok = append(ok, cand{f, refs, f.generic(), ng})
		}
	}
	if len(ok) == 0 {
		return "", false, nCandidates
	}
	// on equal length: a non-generic declaration before a generic one, then more Referenz parameters
	sort.SliceStable(ok, func(i, j int) bool {
		if ok[i].generic != ok[j].generic {
			return !ok[i].generic
		}
		return ok[i].refs > ok[j].refs
	})
	if len(ok) > 1 && ok[0].refs == ok[1].refs && ok[0].generic == ok[1].generic {
		return "?", false, nCandidates
	}
	// the statement orders non-generic before generic and then by Referenz parameters; it does not say how two
	// generic declarations with different numbers of generic parameters rank against each other
	if ok[0].generic {
		for _, o := range ok[1:] {
			if o.generic && o.ngen != ok[0].ngen {
				return "?", false, nCandidates
			}
		}
	}
	return ok[0].f.Name, cl.Negated, nCandidates
}

func unwrap(e ast.Expression) ast.Expression {
	for {
		if g, ok := e.(*ast.Grouping); ok {
			e = g.Expr
			continue
		}
		return e
	}
}

func judge(c Case) (*vf.Failure, map[string]int) {
	feats := map[string]int{}
	files, vars := render(c)
	res := fe.ParseFiles(files, "main.ddp")
	defer res.Cleanup()
	fail := func(sig, format string, a ...any) (*vf.Failure, map[string]int) {
		src := "--- main.ddp\n" + files["main.ddp"]
		if l, ok := files["lib.ddp"]; ok {
			src += "--- lib.ddp\n" + l
		}
		return vf.NewFailure("C09:"+sig, fmt.Sprintf(format, a...)+"\ndiagnostics: "+strings.Join(res.DiagStrings(), " | ")+"\n"+src, c), feats
	}
	if res.Panic != "" || res.Err != "" || res.Module == nil {
		feats["skipped:frontend-crash(C03)"]++
		return nil, feats
	}
	decls := map[string]*ast.VarDecl{}
	for _, st := range res.Module.Ast.Statements {
		if ds, ok := st.(*ast.DeclStmt); ok {
			if vd, ok := ds.Decl.(*ast.VarDecl); ok {
				decls[vd.Name()] = vd
			}
		}
	}
	anyRejected := false
	for i, cl := range c.Calls {
		want, wantNeg, ncand := predict(c, cl)
		if ncand >= 2 {
			feats["call:>=2-candidates"]++
		}
		switch want {
		case "?":
			feats["call:tie(unspecified)"]++
			continue
		case "":
			anyRejected = true
			feats["call:no-candidate-type-matches"]++
			continue
		}
		vd := decls[vars[i]]
		if vd == nil {
			return fail("call-did-not-parse", "call %d should resolve to %s but its statement did not produce a declaration", i, want)
		}
		e := unwrap(vd.InitVal)
		negated := false
		if u, ok := e.(*ast.UnaryExpr); ok && u.Operator == ast.UN_NOT {
			negated = true
			e = unwrap(u.Rhs)
		}
		fc, ok := e.(*ast.FuncCall)
		if !ok || fc.Func == nil {
			return fail("call-did-not-parse", "call %d should resolve to %s but parsed as %T", i, want, e)
		}
		if fc.Func.Name() != want {
			return fail("wrong-callee", "call %d (%s) resolves to %s, the rule (exact parameter types, then more Referenz parameters) selects %s", i, vars[i], fc.Func.Name(), want)
		}
		if negated != wantNeg {
			return fail("negation", "call %d: negated form used: %v, but the AST wraps the call in 'nicht': %v", i, wantNeg, negated)
		}
		// arguments bind by name
		var target Fn
		for _, f := range c.Fns {
			if f.Name == want {
				target = f
			}
		}
		ai := 0
		for _, it := range target.Pattern {
			if it.Word != "" || it.Neg {
				continue
			}
			a := cl.Args[ai]
			ai++
			got := unwrap(fc.Args[target.Params[it.Param].Name])
			switch {
			case got == nil:
				return fail("argument-binding", "call %d: parameter %s of %s has no argument", i, target.Params[it.Param].Name, want)
			case a.Ident != "":
				id, ok := got.(*ast.Ident)
				if !ok || id.Literal.Literal != a.Ident {
					return fail("argument-binding", "call %d: parameter %s of %s should be bound to variable %s, got %T %v", i, target.Params[it.Param].Name, want, a.Ident, got, got.Token().Literal)
				}
			case a.Int != nil:
				lit, ok := got.(*ast.IntLit)
				if ok && lit.Value != *a.Int {
					return fail("argument-binding", "call %d: parameter %s of %s should be bound to %d, got %d", i, target.Params[it.Param].Name, want, *a.Int, lit.Value)
				}
			}
		}
		feats["call:resolved"]++
		if wantNeg {
			feats["call:negated"]++
		}
	}
	if !anyRejected && len(res.Errors()) > 0 {
		return fail("spurious-error", "every call has a type-matching candidate, yet the frontend reports errors")
	}
	if anyRejected && len(res.Errors()) == 0 {
		return fail("untyped-call-accepted", "a call has no type-matching candidate but no error was reported")
	}
	return nil, feats
}

// ---------------------------------------------------------------- generator

var words = []string{"foo", "bar", "baz", "mit", "nach"}
var ptypes = []string{"Zahl", "Zahl", "Kommazahl", "Text", "Wahrheitswert", "Zahlen Liste"}

func genArg(t *rapid.T, typ string, wantAssignable bool) Arg {
	i64 := func(v int64) *int64 { return &v }
	switch typ {
	case "Zahl":
		if wantAssignable {
			n := rapid.SampledFrom([]string{"vz", "vz2"}).Draw(t, "zid")
			return Arg{Src: n, Type: typ, Assignable: true, Ident: n}
		}
		switch rapid.IntRange(0, 4).Draw(t, "zform") {
		case 0:
			return Arg{Src: "5", Type: typ, Int: i64(5)}
		case 1:
			return Arg{Src: "-7", Type: typ}
		case 2:
			return Arg{Src: "(vz plus 1)", Type: typ}
		case 3:
			return Arg{Src: "(vz)", Type: typ, Assignable: true}
		default:
			return Arg{Src: "vz", Type: typ, Assignable: true, Ident: "vz"}
		}
	case "Kommazahl":
		if wantAssignable {
			return Arg{Src: "vk", Type: typ, Assignable: true, Ident: "vk"}
		}
		return rapid.SampledFrom([]Arg{{Src: "2,5", Type: typ}, {Src: "-2,5", Type: typ}, {Src: "(vk mal 2,0)", Type: typ}, {Src: "vk", Type: typ, Assignable: true, Ident: "vk"}}).Draw(t, "karg")
	case "Text":
		if wantAssignable {
			return Arg{Src: "vt", Type: typ, Assignable: true, Ident: "vt"}
		}
		return rapid.SampledFrom([]Arg{{Src: "\"x\"", Type: typ}, {Src: "(vt verkettet mit \"y\")", Type: typ}, {Src: "vt", Type: typ, Assignable: true, Ident: "vt"}}).Draw(t, "targ")
	case "Wahrheitswert":
		if wantAssignable {
			return Arg{Src: "vw", Type: typ, Assignable: true, Ident: "vw"}
		}
		return rapid.SampledFrom([]Arg{{Src: "wahr", Type: typ}, {Src: "(nicht vw)", Type: typ}, {Src: "vw", Type: typ, Assignable: true, Ident: "vw"}}).Draw(t, "warg")
	default:
		if wantAssignable {
			return Arg{Src: "vl", Type: typ, Assignable: true, Ident: "vl"}
		}
		return rapid.SampledFrom([]Arg{{Src: "(vl verkettet mit 3)", Type: typ}, {Src: "(eine leere Zahlen Liste)", Type: typ}, {Src: "vl", Type: typ, Assignable: true, Ident: "vl"}}).Draw(t, "larg")
	}
}

func genCase(t *rapid.T) Case {
	var c Case
	n := rapid.IntRange(2, 7).Draw(t, "nfns")
	seen := map[string]bool{}
	for i := 0; i < n; i++ {
		f := Fn{Name: fmt.Sprintf("fn%d", i), Mod: rapid.SampledFrom([]string{"main", "main", "lib"}).Draw(t, "mod")}
		// derive from an earlier function (same shape, other types / Referenz twin / extension / permutation) or fresh
		if len(c.Fns) > 0 && rapid.IntRange(0, 3).Draw(t, "derive") > 0 {
			b := rapid.SampledFrom(c.Fns).Draw(t, "base")
			f.Params = append([]Param(nil), b.Params...)
			f.Pattern = append([]Item(nil), b.Pattern...)
			f.RetsBool = b.RetsBool
			switch rapid.IntRange(0, 6).Draw(t, "variation") {
			case 5, 6: // generic twin: one parameter (or every parameter of that type) becomes a type parameter
				if len(f.Params) > 0 {
					k := rapid.IntRange(0, len(f.Params)-1).Draw(t, "which")
					old := f.Params[k].Type
					all := rapid.Bool().Draw(t, "all-of-that-type")
					for j := range f.Params {
						if (j == k || (all && f.Params[j].Type == old)) && !isGeneric(f.Params[j].Type) {
							if f.Params[j].Type == "Zahlen Liste" && rapid.Bool().Draw(t, "T-Liste") {
								f.Params[j].Type = "T Liste"
							} else {
								f.Params[j].Type = "T"
							}
						}
					}
				}
			case 0: // other parameter type
				if len(f.Params) > 0 {
					k := rapid.IntRange(0, len(f.Params)-1).Draw(t, "which")
					f.Params[k].Type = rapid.SampledFrom(ptypes).Draw(t, "nt")
				}
			case 1: // Referenz twin
				if len(f.Params) > 0 {
					k := rapid.IntRange(0, len(f.Params)-1).Draw(t, "which")
					f.Params[k].Ref = !f.Params[k].Ref
				}
			case 2: // extension by a word (prefix relation)
				f.Pattern = append(f.Pattern, Item{Word: rapid.SampledFrom(words).Draw(t, "w")})
			case 3: // extension by a parameter
				if len(f.Params) < 3 {
					f.Params = append(f.Params, Param{Name: fmt.Sprintf("p%d", len(f.Params)), Type: rapid.SampledFrom(ptypes).Draw(t, "nt")})
					f.Pattern = append(f.Pattern, Item{Param: len(f.Params) - 1})
				}
			default: // permuted placeholders
				var idx []int
				for j, it := range f.Pattern {
					if it.Word == "" && !it.Neg {
						idx = append(idx, j)
					}
				}
				if len(idx) >= 2 {
					f.Pattern[idx[0]].Param, f.Pattern[idx[1]].Param = f.Pattern[idx[1]].Param, f.Pattern[idx[0]].Param
				}
			}
		} else {
			np := rapid.IntRange(0, 3).Draw(t, "np")
			for j := 0; j < np; j++ {
				f.Params = append(f.Params, Param{Name: fmt.Sprintf("p%d", j), Type: rapid.SampledFrom(ptypes).Draw(t, "pt"), Ref: rapid.IntRange(0, 3).Draw(t, "ref") == 0})
			}
			f.Pattern = []Item{{Word: rapid.SampledFrom(words[:3]).Draw(t, "head")}}
			for j := 0; j < np; j++ {
				if rapid.Bool().Draw(t, "sepword") {
					f.Pattern = append(f.Pattern, Item{Word: rapid.SampledFrom(words).Draw(t, "w")})
				}
				f.Pattern = append(f.Pattern, Item{Param: j})
			}
			if rapid.IntRange(0, 3).Draw(t, "tail") == 0 {
				f.Pattern = append(f.Pattern, Item{Word: rapid.SampledFrom(words).Draw(t, "w")})
			}
			f.RetsBool = rapid.IntRange(0, 3).Draw(t, "bool") == 0
			if f.RetsBool && rapid.Bool().Draw(t, "negmarker") {
				f.Pattern = append(f.Pattern, Item{Neg: true}, Item{Word: "ist"})
			}
		}
		dup := false
		for _, k := range aliasKeys(f) {
			if seen[k] {
				dup = true
			}
		}
		if dup {
			continue
		}
		for _, k := range aliasKeys(f) {
			seen[k] = true
		}
		c.Fns = append(c.Fns, f)
	}
	nc := rapid.IntRange(1, 5).Draw(t, "ncalls")
	for i := 0; i < nc && len(c.Fns) > 0; i++ {
		f := rapid.SampledFrom(c.Fns).Draw(t, "target")
		cl := Call{Shape: f.Pattern}
		for _, it := range f.Pattern {
			if it.Neg {
				cl.Negated = rapid.Bool().Draw(t, "use-neg")
			}
			if it.Word != "" || it.Neg {
				continue
			}
			p := f.Params[it.Param]
			typ := p.Type
			switch typ { // a type parameter is bound by the argument
			case "T":
				typ = rapid.SampledFrom(ptypes).Draw(t, "bound-type")
			case "T Liste":
				typ = "Zahlen Liste"
			}
			if rapid.IntRange(0, 7).Draw(t, "mistype") == 0 {
				typ = rapid.SampledFrom(ptypes).Draw(t, "othertype")
			}
			cl.Args = append(cl.Args, genArg(t, typ, p.Ref && rapid.IntRange(0, 5).Draw(t, "keep-assignable") > 0))
		}
		c.Calls = append(c.Calls, cl)
	}
	return c
}

func TestMain(m *testing.M) {
	vf.Main(m, vf.Def{
		ID:    "C09",
		Level: "exploration",
		Rule: "part A: populations of 2-7 function declarations over a 5-word vocabulary built by derivation (same pattern with another parameter type, Referenz twin, extension by a word or parameter = prefix relation, permuted placeholders, negation marker), some in an imported module; 1-5 call sites per population with argument forms {literal, negative literal, identifier, parenthesised identifier, parenthesised expression}, sometimes deliberately mistyped; an independent matcher written from the property text predicts callee, name->argument binding, 'nicht' wrapper or rejection and is compared with FuncCall.Func / Args in the AST. " +
			"part B: operator overload populations on a Kombination (value/Referenz parameter variants of plus, minus, mal, gleich) and operands {identifier, literal, list element, field, element of a list field}; predicted overload vs BinaryExpr.OverloadedBy. " +
			"non-trivial = the call site has >= 2 candidates whose token pattern matches; distinct by case hash",
		Assumptions: []string{"exact ties under the stated order (same length, same number of Referenz parameters, both type-match) are unspecified and skipped (counted)"},
		Judge: func(raw json.RawMessage) *vf.Failure {
			var oc OpCase
			if json.Unmarshal(raw, &oc) == nil && len(oc.Overloads) > 0 {
				f, _ := judgeOps(oc)
				return f
			}
			var c Case
			if err := json.Unmarshal(raw, &c); err != nil {
				return vf.NewFailure("harness:bad-case", err.Error(), nil)
			}
			f, _ := judge(c)
			return f
		},
	})
}

func TestAliasResolution(t *testing.T) {
	defer vf.AfterCheck(t)
	vf.Checks(15000, 300000)
	rapid.Check(t, func(t *rapid.T) {
		c := genCase(t)
		if len(c.Fns) == 0 || len(c.Calls) == 0 {
			t.Skip("empty")
		}
		f, feats := judge(c)
		if vf.Report(t, f) {
			return
		}
		b, _ := json.Marshal(c)
		var fl []string
		for k, v := range feats {
			if v > 0 {
				fl = append(fl, "A:"+k)
			}
		}
		nt := feats["call:>=2-candidates"] > 0
		vf.Case("A:"+string(b), nt, fl...)
		if nt {
			files, _ := render(c)
			vf.Sample("alias-population", files)
		}
	})
}
