package c09

import (
	"encoding/json"
	"fmt"
	"sort"
	"strings"
	"testing"

	"github.com/DDP-Projekt/Kompilierer/src/ast"
	"pgregory.net/rapid"

	"verif/fe"
	"verif/vf"
)

type Overload struct {
	Name  string `json:"name"`
	Op    string `json:"op"` // plus | minus | mal | gleich
	LRef  bool   `json:"lref"`
	RType string `json:"rtype"` // K | Zahl
	RRef  bool   `json:"rref"`
}
type Operand struct {
	Src        string `json:"src"`
	Type       string `json:"type"`
	Assignable bool   `json:"assignable"`
}
type OpUse struct {
	Op string  `json:"op"`
	L  Operand `json:"l"`
	R  Operand `json:"r"`
}
type OpCase struct {
	Overloads []Overload `json:"overloads"`
	Uses      []OpUse    `json:"uses"`
}

const opPrelude = `Wir nennen die Kombination aus
	der Zahl wert mit Standardwert 1,
	der Zahlen Liste werte,
einen K, und erstellen sie so:
	"ein K"

Wir nennen die Kombination aus
	dem K innen,
	der K Liste liste,
einen H, und erstellen sie so:
	"ein H"

`

const opVars = `Der K ka ist ein K.
Der K kb ist ein K.
Die K Liste kl ist eine Liste, die aus ka, kb besteht.
Der H h ist ein H.
Speichere kl in liste von h.
Die Zahl vz ist 4.

`

var kOperands = []Operand{
	{"ka", "K", true}, {"kb", "K", true}, {"(ein K)", "K", false}, {"(kl an der Stelle 1)", "K", true}, {"(innen von h)", "K", true},
	{"((liste von h) an der Stelle 2)", "K", true}, {"(liste von h an der Stelle 1)", "K", true}, {"(ka)", "K", true},
}
var zOperands = []Operand{{"5", "Zahl", false}, {"vz", "Zahl", true}, {"(vz plus 1)", "Zahl", false}, {"(wert von ka)", "Zahl", true}, {"((werte von ka) an der Stelle 1)", "Zahl", true}}

func opFmt(op, l, r string) string {
	switch op {
	case "gleich":
		return l + " gleich " + r + " ist"
	case "verkettet mit":
		return l + " verkettet mit " + r
	}
	return l + " " + op + " " + r
}

func renderOps(c OpCase) string {
	var sb strings.Builder
	sb.WriteString(opPrelude)
	for _, o := range c.Overloads {
		lt, rt := "K", o.RType
		if o.LRef {
			lt = "K Referenz"
		}
		if o.RRef {
			if rt == "Zahl" {
				rt = "Zahlen Referenz"
			} else {
				rt = "K Referenz"
			}
		}
		fmt.Fprintf(&sb, "Die Funktion %s mit den Parametern a und b vom Typ %s und %s, gibt eine Zahl zurück, macht:\n\tGib 1 zurück.\nUnd überlädt den \"%s\" Operator.\n\n", o.Name, lt, rt, o.Op)
	}
	sb.WriteString(opVars)
	for i, u := range c.Uses {
		fmt.Fprintf(&sb, "Die Variable res%d ist (%s).\n", i, opFmt(u.Op, u.L.Src, u.R.Src))
	}
	return sb.String()
}

func predictOp(c OpCase, u OpUse) string {
	type cand struct {
		name string
		refs int
	}
	var ok []cand
	for _, o := range c.Overloads {
		if o.Op != u.Op || u.L.Type != "K" || o.RType != u.R.Type {
			continue
		}
		if (o.LRef && !u.L.Assignable) || (o.RRef && !u.R.Assignable) {
			continue
		}
		refs := 0
		if o.LRef {
			refs++
		}
		if o.RRef {
			refs++
		}
		ok = append(ok, cand{o.Name, refs})
	}
	if len(ok) == 0 {
		return ""
	}
	sort.SliceStable(ok, func(i, j int) bool { return ok[i].refs > ok[j].refs })
	if len(ok) > 1 && ok[0].refs == ok[1].refs {
		return "?"
	}
	return ok[0].name
}

func judgeOps(c OpCase) (*vf.Failure, map[string]int) {
	feats := map[string]int{}
	src := renderOps(c)
	res := fe.ParseSource("ops.ddp", []byte(src))
	fail := func(sig, format string, a ...any) (*vf.Failure, map[string]int) {
		return vf.NewFailure("C09:op:"+sig, fmt.Sprintf(format, a...)+"\ndiagnostics: "+strings.Join(res.DiagStrings(), " | ")+"\n--- ops.ddp\n"+src, c), feats
	}
	if res.Panic != "" || res.Err != "" || res.Module == nil {
		return nil, feats
	}
	decls := map[string]*ast.VarDecl{}
	for _, st := range res.Module.Ast.Statements {
		if ds, ok := st.(*ast.DeclStmt); ok {
			if vd, ok := ds.Decl.(*ast.VarDecl); ok {
				decls[vd.Name()] = vd
			}
		}
	}
	expectErr := false
	for i, u := range c.Uses {
		want := predictOp(c, u)
		if want == "?" {
			feats["op:tie(unspecified)"]++
			continue
		}
		if want == "" {
			if u.Op == "gleich" && u.R.Type == "K" {
				want = "<builtin>"
			} else {
				expectErr = true
				feats["op:no-overload-and-no-builtin"]++
				continue
			}
		}
		vd := decls[fmt.Sprintf("res%d", i)]
		if vd == nil {
			return fail("did-not-parse", "use %d did not produce a declaration", i)
		}
		be, ok := unwrap(vd.InitVal).(*ast.BinaryExpr)
		if !ok {
			return fail("did-not-parse", "use %d parsed as %T", i, unwrap(vd.InitVal))
		}
		got := "<builtin>"
		if be.OverloadedBy != nil {
			got = be.OverloadedBy.Decl.Name()
		}
		if got != want {
			return fail("wrong-overload", "use %d (%s): selected %s, the rule (exact operand types, Referenz parameters need assignable operands, more Referenz parameters first) selects %s", i, opFmt(u.Op, u.L.Src, u.R.Src), got, want)
		}
		feats["op:resolved"]++
		if want == "<builtin>" {
			feats["op:builtin"]++
		}
	}
	if !expectErr && len(res.Errors()) > 0 {
		return fail("spurious-error", "every use has an applicable overload or built-in meaning, yet errors are reported")
	}
	if expectErr && len(res.Errors()) == 0 {
		return fail("inapplicable-accepted", "a use has neither an applicable overload nor a built-in meaning, but no error was reported")
	}
	return nil, feats
}

func TestOperatorOverloads(t *testing.T) {
	defer vf.AfterCheck(t)
	vf.Checks(5000, 100000)
	rapid.Check(t, func(t *rapid.T) {
		var c OpCase
		seen := map[string]bool{}
		n := rapid.IntRange(1, 6).Draw(t, "noverloads")
		for i := 0; i < n; i++ {
			o := Overload{Name: fmt.Sprintf("ov%d", i), Op: rapid.SampledFrom([]string{"plus", "plus", "minus", "mal", "gleich"}).Draw(t, "op"),
				LRef: rapid.Bool().Draw(t, "lref"), RType: rapid.SampledFrom([]string{"K", "K", "Zahl"}).Draw(t, "rtype"), RRef: rapid.Bool().Draw(t, "rref")}
			k := fmt.Sprintf("%s/%v/%s/%v", o.Op, o.LRef, o.RType, o.RRef)
			if seen[k] {
				continue
			}
			seen[k] = true
			c.Overloads = append(c.Overloads, o)
		}
		nu := rapid.IntRange(1, 5).Draw(t, "nuses")
		for i := 0; i < nu; i++ {
			o := rapid.SampledFrom(c.Overloads).Draw(t, "for")
			u := OpUse{Op: o.Op, L: rapid.SampledFrom(kOperands).Draw(t, "l")}
			rt := o.RType
			if rapid.IntRange(0, 6).Draw(t, "other-rtype") == 0 {
				rt = map[string]string{"K": "Zahl", "Zahl": "K"}[rt]
			}
			if rt == "K" {
				u.R = rapid.SampledFrom(kOperands).Draw(t, "r")
			} else {
				u.R = rapid.SampledFrom(zOperands).Draw(t, "rz")
			}
			c.Uses = append(c.Uses, u)
		}
		f, feats := judgeOps(c)
		if vf.Report(t, f) {
			return
		}
		b, _ := json.Marshal(c)
		var fl []string
		for k := range feats {
			fl = append(fl, "B:"+k)
		}
		vf.Case("B:"+string(b), len(c.Overloads) >= 2, fl...)
		if len(c.Overloads) >= 2 {
			vf.Sample("operator-overloads", renderOps(c))
		}
	})
}
