// C16 — compilation is repeatable: same sources, same verdict, same diagnostics.
package c16

import (
	"encoding/json"
	"fmt"
	"os"
	"os/exec"
	"path/filepath"
	"sort"
	"strings"
	"testing"
	"time"

	"pgregory.net/rapid"

	"verif/fw"
	"verif/mut"
	"verif/vf"
)

type Case struct {
	Kind   string            `json:"kind"`
	Main   string            `json:"main"`
	Source []byte            `json:"source,omitempty"`
	Text   string            `json:"source_text,omitempty"`
	Files  map[string]string `json:"files,omitempty"`
	Desc   []string          `json:"desc,omitempty"`
	Repeat int               `json:"repeat"`
	CLI    int               `json:"cli,omitempty"` // number of compile+run repetitions through kddp (0 = none)
}

var worker = &fw.Worker{}

func TestMain(m *testing.M) {
	fw.ServeIfWorker()
	vf.Main(m, vf.Def{
		ID:    "C16",
		Level: "exploration",
		Rule: "programs built to consult the unordered structures of the frontend and code generator (calls and Kombination literals with 2-4 arguments of which several are wrong-typed, wholesale imports of modules with many public declarations - several per source line - that clash with local names, import diamonds and chains whose global initialisers depend on each other, alias ties), plus near-valid mutants of repository programs; " +
			"each is parsed N times (N=40 targeted, N=10 mutants) by a fresh parser.Parse in one worker process - Go randomises map iteration per range statement, so every repetition samples a schedule - and, on a sample, compiled and run 6-8 times through the kddp CLI in separate processes; oracle: all repetitions agree on verdict, ordered diagnostics (code, level, file, range, message) and (CLI) exit status, stderr and program output; " +
			"non-trivial = the program contains at least one tagged order-sensitive construct and produced at least one diagnostic or output line; distinct by input hash",
		Assumptions: []string{
			"map-order dependence is sampled, not enumerated: a 2-way dependence survives 40 repetitions with probability 2^-39, dependences with a strongly dominant order may hide",
			"absolute temp-dir paths inside messages are normalised before comparison",
		},
		Judge: func(raw json.RawMessage) *vf.Failure {
			var c Case
			if err := json.Unmarshal(raw, &c); err != nil {
				return vf.NewFailure("harness:bad-case", err.Error(), nil)
			}
			f, _ := judge(c)
			return f
		},
	})
}

func fingerprint(r fw.Run) string {
	var sb strings.Builder
	fmt.Fprintf(&sb, "faulty=%v err=%q panic=%q\n", r.Faulty, r.Err, r.Panic)
	for _, d := range r.Diags {
		sb.WriteString(d.String())
		sb.WriteString("\n")
	}
	return sb.String()
}

func judge(c Case) (*vf.Failure, *fw.Response) {
	if c.Source != nil {
		c.Text = string(c.Source)
	}
	resp, crash := worker.Call(fw.Request{Main: c.Main, Source: c.Source, Files: c.Files, Repeat: c.Repeat}, 120*time.Second)
	if crash != nil {
		vf.Count("skipped:frontend-crash(C03)")
		return nil, nil
	}
	counts := map[string]int{}
	var order []string
	for _, r := range resp.Runs {
		fp := fingerprint(r)
		if counts[fp] == 0 {
			order = append(order, fp)
		}
		counts[fp]++
	}
	if len(order) > 1 {
		var sb strings.Builder
		for _, fp := range order {
			fmt.Fprintf(&sb, "--- %d of %d repetitions:\n%s", counts[fp], len(resp.Runs), fp)
		}
		// signature: the first diagnostic code that differs
		a, b := strings.Split(order[0], "\n"), strings.Split(order[1], "\n")
		site := "verdict"
		for i := 0; i < len(a) && i < len(b); i++ {
			if a[i] != b[i] {
				site = "line" + fmt.Sprint(i)
				if j := strings.Index(a[i], ")"); j > 0 && strings.HasPrefix(a[i], "(") {
					site = "code" + a[i][1:j]
				}
				break
			}
		}
		return vf.NewFailure("C16:diagnostics-differ:"+site, fmt.Sprintf("%s (%s): %d distinct outcomes over %d repeated parses of the same sources\n%s", c.Kind, strings.Join(c.Desc, " "), len(order), len(resp.Runs), sb.String()), c), resp
	}
	if c.CLI > 0 {
		if f := judgeCLI(c); f != nil {
			return f, resp
		}
	}
	return nil, resp
}

func judgeCLI(c Case) *vf.Failure {
	work := vf.WorkDir()
	if work == "" || c.Files == nil {
		return nil
	}
	root, err := os.MkdirTemp("", "verif-c16-")
	if err != nil {
		return nil
	}
	defer os.RemoveAll(root)
	dir := filepath.Join(root, "a", "w")
	os.MkdirAll(dir, 0o755)
	for n, s := range c.Files {
		p := filepath.Join(dir, n)
		if strings.HasSuffix(n, "/") {
			os.MkdirAll(p, 0o755)
			continue
		}
		os.MkdirAll(filepath.Dir(p), 0o755)
		os.WriteFile(p, []byte(s), 0o644)
	}
	counts := map[string]int{}
	var order []string
	for i := 0; i < c.CLI; i++ {
		exe := filepath.Join(dir, fmt.Sprintf("exe%d", i))
		cmd := exec.Command(filepath.Join(work, "ddp/bin/kddp"), "kompiliere", c.Main, "-o", exe)
		cmd.Dir = dir
		cmd.Env = append(os.Environ(), "DDPPATH="+filepath.Join(work, "ddp"))
		out, _ := cmd.CombinedOutput()
		fp := fmt.Sprintf("kddp exit=%d\n%s", cmd.ProcessState.ExitCode(), strings.ReplaceAll(string(out), fmt.Sprintf("exe%d", i), "exe"))
		if cmd.ProcessState.ExitCode() == 0 {
			run := exec.Command(exe)
			run.Dir = dir
			run.Env = append(os.Environ(), "LOCPATH="+filepath.Join(work, "locale"))
			done := make(chan struct{})
			var ro []byte
			go func() { ro, _ = run.CombinedOutput(); close(done) }()
			select {
			case <-done:
				fp += fmt.Sprintf("program exit=%d\n%s", run.ProcessState.ExitCode(), ro)
			case <-time.After(20 * time.Second):
				if run.Process != nil {
					run.Process.Kill()
				}
				vf.Count("cli:program-timeout(inconclusive)")
				return nil
			}
		}
		if counts[fp] == 0 {
			order = append(order, fp)
		}
		counts[fp]++
	}
	vf.Count("cli:programs")
	if len(order) > 1 {
		var sb strings.Builder
		for _, fp := range order {
			s := fp
			if len(s) > 1200 {
				s = s[:1200] + "…"
			}
			fmt.Fprintf(&sb, "--- %d of %d compile+run repetitions:\n%s\n", counts[fp], c.CLI, s)
		}
		return vf.NewFailure("C16:cli-behaviour-differs", fmt.Sprintf("%s (%s): %d distinct behaviours over %d repetitions of kddp kompiliere + run\n%s", c.Kind, strings.Join(c.Desc, " "), len(order), c.CLI, sb.String()), c)
	}
	return nil
}

// ---------------------------------------------------------------- generators

var typeVals = map[string][]string{
	"Zahl": {"1", "vz"}, "Text": {"\"t\"", "vt"}, "Kommazahl": {"2,5"}, "Wahrheitswert": {"wahr"}, "Buchstabe": {"'c'"}, "Zahlen Liste": {"vl"},
}
var typeNames = []string{"Zahl", "Text", "Kommazahl", "Wahrheitswert", "Buchstabe", "Zahlen Liste"}

func paramDecl(types []string) string {
	names := []string{"a", "b", "c", "d"}[:len(types)]
	if len(types) == 1 {
		return fmt.Sprintf("mit dem Parameter a vom Typ %s, ", types[0])
	}
	return fmt.Sprintf("mit den Parametern %s und %s vom Typ %s und %s, ", strings.Join(names[:len(names)-1], ", "), names[len(names)-1], strings.Join(types[:len(types)-1], ", "), types[len(types)-1])
}

// wrong-typed arguments to functions and Kombination literals
func genWrongArgs(t *rapid.T) (map[string]string, []string) {
	var sb strings.Builder
	sb.WriteString("Die Zahl vz ist 1.\nDer Text vt ist \"t\".\nDie Zahlen Liste vl ist eine leere Zahlen Liste.\n")
	n := rapid.IntRange(2, 4).Draw(t, "nparams")
	types := make([]string, n)
	for i := range types {
		types[i] = rapid.SampledFrom(typeNames).Draw(t, "ptype")
	}
	names := []string{"a", "b", "c", "d"}[:n]
	fmt.Fprintf(&sb, "Die Funktion f %sgibt eine Zahl zurück, macht:\n\tGib 1 zurück.\nUnd kann so benutzt werden:\n\t\"f", paramDecl(types))
	for _, i := range rapid.Permutation(seq(n)).Draw(t, "aliasorder") {
		sb.WriteString(" <" + names[i] + ">")
	}
	sb.WriteString("\"\n")
	// Kombination with the same field types
	sb.WriteString("Wir nennen die Kombination aus\n")
	for i, ty := range types {
		art := "der"
		if ty == "Text" || ty == "Wahrheitswert" || ty == "Buchstabe" {
			art = "dem"
		}
		if ty == "Buchstabe" {
			fmt.Fprintf(&sb, "\tdem Buchstaben %s,\n", names[i])
		} else {
			fmt.Fprintf(&sb, "\t%s %s %s,\n", art, ty, names[i])
		}
	}
	sb.WriteString("einen K, und erstellen sie so:\n\t\"ein K aus")
	for i := range names {
		sb.WriteString(" <" + names[i] + ">")
	}
	sb.WriteString("\"\n")
	nc := rapid.IntRange(1, 3).Draw(t, "ncalls")
	wrong := 0
	for k := 0; k < nc; k++ {
		head := rapid.SampledFrom([]string{"f", "ein K aus"}).Draw(t, "callee")
		var args []string
		for range types {
			ty := rapid.SampledFrom(typeNames).Draw(t, "argtype")
			args = append(args, rapid.SampledFrom(typeVals[ty]).Draw(t, "argval"))
		}
		if head == "f" {
			fmt.Fprintf(&sb, "Die Zahl r%d ist (f %s).\n", k, strings.Join(args, " "))
		} else {
			fmt.Fprintf(&sb, "Der K k%d ist ein K aus %s.\n", k, strings.Join(args, " "))
		}
		wrong++
	}
	return map[string]string{"main.ddp": sb.String()}, []string{fmt.Sprintf("wrong-args params=%v calls=%d", types, nc)}
}

func seq(n int) []int {
	s := make([]int, n)
	for i := range s {
		s[i] = i
	}
	return s
}

// wholesale imports of modules with many public declarations, several per line, clashing with local names
func genImportClash(t *rapid.T) (map[string]string, []string) {
	files := map[string]string{}
	nm := rapid.IntRange(1, 3).Draw(t, "nmods")
	pool := []string{"alpha", "beta", "gamma", "delta", "eps", "zeta", "eta", "theta"}
	var main strings.Builder
	localFirst := rapid.Bool().Draw(t, "local-first")
	nlocal := rapid.IntRange(0, 4).Draw(t, "nlocal")
	locals := rapid.Permutation(pool).Draw(t, "locals")[:nlocal]
	writeLocals := func() {
		for _, n := range locals {
			fmt.Fprintf(&main, "Die Zahl %s ist 0.\n", n)
		}
	}
	if localFirst {
		writeLocals()
	}
	for m := 0; m < nm; m++ {
		var sb strings.Builder
		nd := rapid.IntRange(2, 8).Draw(t, "ndecls")
		for i, n := range rapid.Permutation(pool).Draw(t, "names")[:nd] {
			kind := rapid.IntRange(0, 2).Draw(t, "kind")
			switch kind {
			case 0:
				fmt.Fprintf(&sb, "Die öffentliche Zahl %s ist %d.", n, i)
			case 1:
				fmt.Fprintf(&sb, "Die öffentliche Konstante %s ist %d.", n, i)
			default:
				fmt.Fprintf(&sb, "Die öffentliche Zahl %s ist %d.", n, i*10)
			}
			if rapid.IntRange(0, 2).Draw(t, "sameline") == 0 {
				sb.WriteString(" ")
			} else {
				sb.WriteString("\n")
			}
		}
		sb.WriteString("\n")
		files[fmt.Sprintf("m%d.ddp", m)] = sb.String()
		if rapid.IntRange(0, 3).Draw(t, "selective") == 0 {
			sel := rapid.Permutation(pool).Draw(t, "sel")[:3]
			fmt.Fprintf(&main, "Binde %s, %s und %s aus \"m%d\" ein.\n", sel[0], sel[1], sel[2], m)
		} else {
			fmt.Fprintf(&main, "Binde \"m%d\" ein.\n", m)
		}
	}
	if !localFirst {
		writeLocals()
	}
	files["main.ddp"] = main.String()
	return files, []string{fmt.Sprintf("import-clash mods=%d locals=%v", nm, locals)}
}

// import graphs whose global initialisers depend on each other and print (run-time behaviour must be repeatable)
func genInitGraph(t *rapid.T) (map[string]string, []string) {
	files := map[string]string{}
	n := rapid.IntRange(2, 5).Draw(t, "nmods")
	// module i may import modules with larger index (DAG)
	for i := n - 1; i >= 0; i-- {
		var sb strings.Builder
		sb.WriteString("Binde \"Duden/Ausgabe\" ein.\n")
		var deps []int
		for j := i + 1; j < n; j++ {
			if rapid.IntRange(0, 1).Draw(t, "edge") == 0 || j == i+1 {
				deps = append(deps, j)
			}
		}
		for _, j := range rapid.Permutation(deps).Draw(t, "deporder") {
			fmt.Fprintf(&sb, "Binde \"m%d\" ein.\n", j)
		}
		expr := fmt.Sprintf("%d", i+1)
		for _, j := range deps {
			expr += fmt.Sprintf(" plus g%d", j)
		}
		fmt.Fprintf(&sb, "Die öffentliche Funktion zeige%d mit dem Parameter x vom Typ Zahl, gibt eine Zahl zurück, macht:\n\tSchreibe \"init m%d\" auf eine Zeile.\n\tGib x zurück.\nUnd kann so benutzt werden:\n\t\"zeige%d <x>\"\n", i, i, i)
		fmt.Fprintf(&sb, "Die öffentliche Zahl g%d ist (zeige%d (%s)).\n", i, i, expr)
		nt := rapid.IntRange(0, 2).Draw(t, "ntexts")
		for k := 0; k < nt; k++ {
			fmt.Fprintf(&sb, "Der öffentliche Text t%d_%d ist \"m%d\" verkettet mit \"-%d\".\n", i, k, i, k)
		}
		if i == 0 {
			sb.WriteString("Schreibe g0 auf eine Zeile.\n")
			for _, j := range deps {
				fmt.Fprintf(&sb, "Schreibe g%d auf eine Zeile.\n", j)
			}
		}
		name := fmt.Sprintf("m%d.ddp", i)
		if i == 0 {
			name = "main.ddp"
		}
		files[name] = sb.String()
	}
	return files, []string{fmt.Sprintf("init-graph mods=%d", n)}
}

var corpus *mut.Corpus

func TestRepeatable(t *testing.T) {
	defer vf.AfterCheck(t)
	defer worker.Close()
	corpus = mut.LoadCorpus(vf.Repo())
	vf.Checks(1600, 30000)
	cliBudget := vf.Pick(6, 80) // per shard
	rapid.Check(t, func(t *rapid.T) {
		var c Case
		switch k := rapid.IntRange(0, 9).Draw(t, "generator"); {
		case k <= 2:
			f, d := genWrongArgs(t)
			c = Case{Kind: "wrong-args", Main: "main.ddp", Files: f, Desc: d, Repeat: 40}
		case k <= 4:
			f, d := genImportClash(t)
			c = Case{Kind: "import-clash", Main: "main.ddp", Files: f, Desc: d, Repeat: 40}
		case k <= 6:
			f, d := genInitGraph(t)
			c = Case{Kind: "init-graph", Main: "main.ddp", Files: f, Desc: d, Repeat: 10}
			if cliBudget > 0 && vf.WorkDir() != "" {
				c.CLI = vf.Pick(6, 8)
				cliBudget--
			}
		case k == 7:
			f, m, d := mut.GenImportArrangement(t)
			c = Case{Kind: "imports", Main: m, Files: f, Desc: d, Repeat: 20}
		default:
			p, src, d := corpus.NearValid(t)
			c = Case{Kind: "nearvalid", Main: p, Source: src, Desc: d, Repeat: 10}
		}
		f, resp := judge(c)
		if vf.Report(t, f) {
			return
		}
		if resp == nil {
			return
		}
		key := c.Kind + "\x00" + string(c.Source)
		names := make([]string, 0, len(c.Files))
		for n := range c.Files {
			names = append(names, n)
		}
		sort.Strings(names)
		for _, n := range names {
			key += "\x00" + n + "\x00" + c.Files[n]
		}
		nt := len(resp.Runs[0].Diags) > 0 || c.CLI > 0
		feats := []string{"gen:" + c.Kind, fmt.Sprintf("repeat=%d", c.Repeat)}
		if c.CLI > 0 {
			feats = append(feats, "cli-compile+run")
		}
		vf.Case(key, nt, feats...)
		vf.Count("parses", int64(len(resp.Runs)))
		if nt {
			var ds []string
			for _, d := range resp.Runs[0].Diags {
				ds = append(ds, d.String())
			}
			s := map[string]any{"kind": c.Kind, "desc": c.Desc, "repetitions": len(resp.Runs), "cli_repetitions": c.CLI, "diagnostics": ds}
			if c.Files != nil {
				s["files"] = c.Files
			}
			vf.Sample(c.Kind, s)
		}
	})
}
