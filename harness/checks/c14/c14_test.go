// C14 — type equivalence is lawful; aliases transparent, definitions opaque.
package c14

import (
	"encoding/json"
	"fmt"
	"strings"
	"testing"

	"github.com/DDP-Projekt/Kompilierer/src/ddperror"
	"github.com/DDP-Projekt/Kompilierer/src/ddptypes"
	"github.com/DDP-Projekt/Kompilierer/src/parser"
	"pgregory.net/rapid"

	"verif/vf"
)

// ---------------------------------------------------------------- type terms (the model)

type Kind int

const (
	Prim Kind = iota
	Var
	Struct
	Alias
	Def
	List
)

type Term struct {
	Kind  Kind
	Name  string // primitive name / declared name
	Sub   *Term  // target / base / element
	Depth int
	ID    int
}

// canon erases aliases everywhere and keeps definitions and Kombinationen nominal.
func (t *Term) canon() string {
	switch t.Kind {
	case Alias:
		return t.Sub.canon()
	case List:
		return "list(" + t.Sub.canon() + ")"
	case Def, Struct:
		return fmt.Sprintf("%s#%d", t.Name, t.ID)
	}
	return t.Name
}
func (t *Term) numeric() bool {
	c := t.canon()
	return c == "Zahl" || c == "Kommazahl" || c == "Byte"
}
func (t *Term) strip() *Term { // through aliases
	for t.Kind == Alias {
		t = t.Sub
	}
	return t
}
func (t *Term) hasAliasOrDefBelowTop() bool {
	for s := t.Sub; s != nil; s = s.Sub {
		if s.Kind == Alias || s.Kind == Def {
			return true
		}
	}
	return false
}

// writable in DDP source without an intermediate name?
func (t *Term) writable() bool {
	if t.Kind == List {
		return t.Sub.Kind != List && t.Sub.writable()
	}
	if t.Sub != nil {
		return t.Sub.writable()
	}
	return true
}

var primGender = map[string]bool{"Zahl": true, "Kommazahl": true} // feminine

func (t *Term) feminine() bool {
	switch t.Kind {
	case Prim:
		return primGender[t.Name]
	case Struct:
		return false
	}
	return true // Variable, lists, aliases and definitions (declared with "eine")
}

var listSpelling = map[string]string{"Zahl": "Zahlen Liste", "Kommazahl": "Kommazahlen Liste", "Byte": "Byte Liste", "Wahrheitswert": "Wahrheitswert Liste",
	"Buchstabe": "Buchstaben Liste", "Text": "Text Liste", "Variable": "Variablen Liste"}

func (t *Term) src() string {
	if t.Kind == List {
		if s, ok := listSpelling[t.Sub.Name]; ok && (t.Sub.Kind == Prim || t.Sub.Kind == Var) {
			return s
		}
		return t.Sub.Name + " Liste"
	}
	return t.Name
}
func (t *Term) String() string {
	switch t.Kind {
	case Alias:
		return t.Name + "=alias(" + t.Sub.String() + ")"
	case Def:
		return t.Name + "=def(" + t.Sub.String() + ")"
	case List:
		return "list(" + t.Sub.String() + ")"
	}
	return t.Name
}

// universe: closure of the base types under list-of / alias-of / definition-of up to maxDepth.
func universe(maxDepth int) []*Term {
	var all []*Term
	id := 0
	add := func(t *Term) *Term { id++; t.ID = id; all = append(all, t); return t }
	for _, p := range []string{"Zahl", "Kommazahl", "Byte", "Wahrheitswert", "Buchstabe", "Text"} {
		add(&Term{Kind: Prim, Name: p})
	}
	add(&Term{Kind: Var, Name: "Variable"})
	add(&Term{Kind: Struct, Name: "Ka"})
	add(&Term{Kind: Struct, Name: "Kb"})
	lo := 0
	for d := 1; d <= maxDepth; d++ {
		hi := len(all)
		for _, b := range all[lo:hi] {
			add(&Term{Kind: List, Sub: b, Depth: d})
			nAl, nDef := 1, 1
			if d == 1 {
				nAl, nDef = 2, 2 // two aliases of one target must be equal, two definitions of one base distinct
			}
			for i := 0; i < nAl; i++ {
				add(&Term{Kind: Alias, Name: fmt.Sprintf("Ta%d", id+1), Sub: b, Depth: d})
			}
			if b.canon() != "Variable" { // a definition over Variable is not a legal declaration
				for i := 0; i < nDef; i++ {
					add(&Term{Kind: Def, Name: fmt.Sprintf("Td%d", id+1), Sub: b, Depth: d})
				}
			}
		}
		lo = hi
	}
	return all
}

// ---------------------------------------------------------------- DDP side

func declOf(t *Term) string {
	switch t.Kind {
	case Struct:
		return "Wir nennen die Kombination aus\n\tder Zahl x mit Standardwert 1,\neinen " + t.Name + ".\n"
	case Alias:
		return fmt.Sprintf("Wir nennen eine %s auch eine %s.\n", t.Sub.src(), t.Name)
	case Def:
		return fmt.Sprintf("Wir definieren eine %s als eine %s.\n", t.Name, t.Sub.src())
	}
	return ""
}

// declarations needed for t, dependencies first, each once
func declsFor(seen map[*Term]bool, t *Term, sb *strings.Builder) {
	if t == nil || seen[t] {
		return
	}
	seen[t] = true
	declsFor(seen, t.Sub, sb)
	sb.WriteString(declOf(t))
}

func varDecl(t *Term, name string) string {
	art, dat := "Der", "einem"
	if t.feminine() {
		art, dat = "Die", "einer"
	}
	return fmt.Sprintf("%s %s %s ist der Standardwert von %s %s.\n", art, t.src(), name, dat, t.src())
}

type diag struct {
	Code int
	Msg  string
	Line uint
}

func parse(src string) (diags []diag, mod any, err error) {
	defer func() {
		if r := recover(); r != nil {
			err = fmt.Errorf("panic: %v", r)
		}
	}()
	m, e := parser.Parse(parser.Options{FileName: "c14.ddp", Source: []byte(src), ErrorHandler: func(e ddperror.Error) {
		if e.Level == ddperror.LEVEL_ERROR {
			diags = append(diags, diag{int(e.Code), e.Msg, e.Range.Start.Line})
		}
	}})
	return diags, m, e
}

// PairCase is the replayable form of one (S,T,position) judgement.
type PairCase struct {
	Program  string `json:"program"`
	Base     string `json:"base"`
	S        string `json:"s"`
	T        string `json:"t"`
	Position string `json:"position"`
	Expect   bool   `json:"expect_accept"`
	Why      string `json:"why"`
}

func judgePair(c PairCase) *vf.Failure {
	bd, _, err := parse(c.Base)
	if err != nil || len(bd) > 0 {
		return vf.NewFailure("harness:base-program-rejected", fmt.Sprintf("base program for S=%s T=%s rejected: %v %v\n%s", c.S, c.T, err, bd, c.Base), c)
	}
	d, _, err := parse(c.Program)
	if err != nil {
		return vf.NewFailure("C14:parse-error:"+c.Position, fmt.Sprintf("Parse returned error %v\n%s", err, c.Program), c)
	}
	got := len(d) == 0
	if got != c.Expect {
		verdict := map[bool]string{true: "accepted", false: "rejected"}
		return vf.NewFailure(fmt.Sprintf("C14:%s:%s-but-model-%s", c.Position, verdict[got], verdict[c.Expect]),
			fmt.Sprintf("S = %s, T = %s, position %s: frontend %s, rule says %s (%s); diagnostics %v\n%s", c.S, c.T, c.Position, verdict[got], verdict[c.Expect], c.Why, d, c.Program), c)
	}
	return nil
}

func mkPair(S, T *Term, position string) PairCase {
	var sb strings.Builder
	seen := map[*Term]bool{}
	declsFor(seen, S, &sb)
	declsFor(seen, T, &sb)
	sb.WriteString(varDecl(S, "s"))
	base := sb.String() + varDecl(T, "x")
	c := PairCase{Base: base, S: S.String(), T: T.String(), Position: position}
	art := "Der"
	if T.feminine() {
		art = "Die"
	}
	same := S.canon() == T.canon()
	bothNum := S.numeric() && T.numeric()
	toVar := T.canon() == "Variable"
	switch position {
	case "init":
		c.Program = sb.String() + fmt.Sprintf("%s %s x ist s.\n", art, T.src())
	case "assign":
		c.Program = base + "Speichere s in x.\n"
	case "cast":
		c.Program = sb.String() + fmt.Sprintf("Die Variable y ist (s als %s).\n", T.src())
	}
	switch position {
	case "init", "assign":
		c.Expect = same || bothNum || toVar
		c.Why = fmt.Sprintf("equivalent=%v bothNumeric=%v targetIsVariable=%v", same, bothNum, toVar)
	case "cast":
		s, t := S.strip(), T.strip()
		switch {
		case s.Kind == Var || t.Kind == Var:
			c.Expect = true
			c.Why = "casts from/to Variable are always admissible"
		case s.Kind == Def && t.Kind == Def:
			c.Expect = s.Sub.canon() == t.canon() || t.Sub.canon() == s.canon()
			c.Why = "definition<->definition converts only if one is the other's base"
		case t.Kind == Def:
			c.Expect = t.Sub.canon() == s.canon()
			c.Why = "to a definition only from its own base type"
		case s.Kind == Def:
			c.Expect = s.Sub.canon() == t.canon()
			c.Why = "from a definition only to its own base type"
		}
	}
	return c
}

func castJudged(S, T *Term) bool {
	s, t := S.strip(), T.strip()
	// the identity cast (a definition to itself) is not a conversion; the property does not fix its verdict
	return (s.Kind == Def || t.Kind == Def) && S.canon() != T.canon()
}

// ---------------------------------------------------------------- ddptypes side

type world struct {
	terms []*Term
	typ   map[*Term]ddptypes.Type
}

// builds real ddptypes values: named types come out of the real parser, lists are composed.
func buildWorld(maxDepth int) (*world, error) {
	w := &world{terms: universe(maxDepth), typ: map[*Term]ddptypes.Type{}}
	var sb strings.Builder
	seen := map[*Term]bool{}
	// nested lists are not writable: name them through helper aliases only for declaration purposes
	for _, t := range w.terms {
		if t.writable() {
			declsFor(seen, t, &sb)
		}
	}
	d, m, err := parser.Parse, 0, error(nil)
	_ = d
	_ = m
	var diags []ddperror.Error
	mod, err := parser.Parse(parser.Options{FileName: "c14world.ddp", Source: []byte(sb.String()), ErrorHandler: func(e ddperror.Error) { diags = append(diags, e) }})
	if err != nil || len(diags) > 0 {
		return nil, fmt.Errorf("world declarations rejected: %v %v", err, diags)
	}
	prim := map[string]ddptypes.Type{"Zahl": ddptypes.ZAHL, "Kommazahl": ddptypes.KOMMAZAHL, "Byte": ddptypes.BYTE, "Wahrheitswert": ddptypes.WAHRHEITSWERT, "Buchstabe": ddptypes.BUCHSTABE, "Text": ddptypes.TEXT}
	for _, t := range w.terms {
		switch t.Kind {
		case Prim:
			w.typ[t] = prim[t.Name]
		case Var:
			w.typ[t] = ddptypes.VARIABLE
		case List:
			w.typ[t] = ddptypes.ListType{ElementType: w.typ[t.Sub]}
		default:
			if t.writable() {
				ty, ok := mod.Ast.Symbols.LookupType(t.Name)
				if !ok {
					return nil, fmt.Errorf("type %s not found in parsed module", t.Name)
				}
				w.typ[t] = ty
			} else if t.Kind == Alias {
				w.typ[t] = &ddptypes.TypeAlias{Name: t.Name, Underlying: w.typ[t.Sub], GramGender: ddptypes.FEMININ}
			} else {
				w.typ[t] = &ddptypes.TypeDef{Name: t.Name, Underlying: w.typ[t.Sub], GramGender: ddptypes.FEMININ}
			}
		}
	}
	return w, nil
}

type EqCase struct {
	Depth int `json:"depth"`
	A     int `json:"a"`
	B     int `json:"b"`
	C     int `json:"c"`
	Law   string `json:"law"`
}

func judgeEq(w *world, c EqCase) *vf.Failure {
	a, b := w.terms[c.A], w.terms[c.B]
	ta, tb := w.typ[a], w.typ[b]
	switch c.Law {
	case "model":
		want := a.canon() == b.canon()
		if got := ddptypes.Equal(ta, tb); got != want {
			return vf.NewFailure(fmt.Sprintf("C14:Equal-vs-model:got=%v", got), fmt.Sprintf("Equal(%s, %s) = %v, model (aliases erased, definitions nominal) says %v", a, b, got, want), c)
		}
		if got := ddptypes.Equal(tb, ta); got != want {
			return vf.NewFailure("C14:Equal-asymmetric", fmt.Sprintf("Equal(%s, %s) = %v but Equal(%s, %s) = %v", b, a, got, a, b, want), c)
		}
	case "numeric":
		if got := ddptypes.IsNumeric(ta); got != a.numeric() {
			return vf.NewFailure("C14:IsNumeric", fmt.Sprintf("IsNumeric(%s) = %v, model %v", a, got, a.numeric()), c)
		}
		isList := strings.HasPrefix(a.canon(), "list(")
		if got := ddptypes.IsList(ta); got != isList {
			return vf.NewFailure("C14:IsList", fmt.Sprintf("IsList(%s) = %v, model %v", a, got, isList), c)
		}
		if !ddptypes.Equal(ta, ta) {
			return vf.NewFailure("C14:Equal-irreflexive", fmt.Sprintf("Equal(%s, itself) = false", a), c)
		}
	case "transitive":
		tc := w.typ[w.terms[c.C]]
		if ddptypes.Equal(ta, tb) && ddptypes.Equal(tb, tc) && !ddptypes.Equal(ta, tc) {
			return vf.NewFailure("C14:Equal-intransitive", fmt.Sprintf("Equal(%s,%s) and Equal(%s,%s) but not Equal(%s,%s)", a, b, b, w.terms[c.C], a, w.terms[c.C]), c)
		}
	}
	return nil
}

var worlds = map[int]*world{}

func getWorld(d int) (*world, error) {
	if w, ok := worlds[d]; ok {
		return w, nil
	}
	w, err := buildWorld(d)
	if err == nil {
		worlds[d] = w
	}
	return w, err
}

func TestMain(m *testing.M) {
	vf.Main(m, vf.Def{
		ID:    "C14",
		Level: "exploration",
		Rule: "type universe = closure of {6 primitives, Variable, 2 Kombinationen} under list-of / alias-of (x2 at depth 1) / definition-of (x2 at depth 1) to depth 3, named types produced by the real parser; " +
			"(a) Equal/IsNumeric/IsList against the canon model on ALL ordered pairs + transitivity on generated triples; (b) one generated program per (S,T,position in {init, assign, cast}) parsed by parser.Parse, verdict compared with the stated acceptance rule; " +
			"non-trivial = the pair involves an alias or definition below the top level of S or T, or two distinct aliases/definitions of one target; distinct by (position,S,T)",
		Assumptions: []string{
			"cast admissibility is only judged when S or T is (an alias of) a type definition or Variable - the property fixes nothing else about casts",
			"a definition over Variable is not a legal declaration and is left out of the universe",
		},
		Judge: func(raw json.RawMessage) *vf.Failure {
			var pc PairCase
			if json.Unmarshal(raw, &pc) == nil && pc.Program != "" {
				return judgePair(pc)
			}
			var ec EqCase
			if err := json.Unmarshal(raw, &ec); err != nil {
				return vf.NewFailure("harness:bad-case", err.Error(), nil)
			}
			w, err := getWorld(ec.Depth)
			if err != nil {
				return vf.NewFailure("harness:world", err.Error(), nil)
			}
			return judgeEq(w, ec)
		},
	})
}

func nontrivialPair(a, b *Term) bool {
	return a.hasAliasOrDefBelowTop() || b.hasAliasOrDefBelowTop() || (a != b && a.Sub != nil && a.Sub == b.Sub && a.Kind == b.Kind && a.Kind != List)
}

// (a) every ordered pair against the model, sharded by row.
func TestEqualAllPairs(t *testing.T) {
	defer vf.AfterCheck(t)
	depth := 3
	w, err := getWorld(depth)
	if err != nil {
		t.Fatal(err)
	}
	k, n := vf.Shard()
	for i, a := range w.terms {
		if i%n != k {
			continue
		}
		if f := judgeEq(w, EqCase{Depth: depth, A: i, B: i, Law: "numeric"}); f != nil {
			if !vf.Report(t, f) {
				return
			}
		}
		for j, b := range w.terms {
			if f := judgeEq(w, EqCase{Depth: depth, A: i, B: j, Law: "model"}); f != nil {
				if !vf.Report(t, f) {
					return
				}
				continue
			}
			vf.Case(fmt.Sprintf("eq:%d:%d", i, j), nontrivialPair(a, b), "part:a-equal-pairs")
		}
	}
	vf.Sample("equal-pair", map[string]string{"a": w.terms[len(w.terms)-1].String(), "b": w.terms[len(w.terms)-7].String()})
	vf.SetExtra("universe_size", len(w.terms))
	vf.SetExtra("equal_pairs_exhaustive", true)
}

func TestEqualTriples(t *testing.T) {
	defer vf.AfterCheck(t)
	depth := 3
	w, err := getWorld(depth)
	if err != nil {
		t.Fatal(err)
	}
	// group by canon so that most drawn triples are related (the interesting case for transitivity)
	groups := map[string][]int{}
	var keys []string
	for i, tm := range w.terms {
		c := tm.canon()
		if _, ok := groups[c]; !ok {
			keys = append(keys, c)
		}
		groups[c] = append(groups[c], i)
	}
	vf.Checks(200000, 3000000)
	rapid.Check(t, func(t *rapid.T) {
		g := groups[rapid.SampledFrom(keys).Draw(t, "class")]
		pick := func(l string) int {
			if rapid.IntRange(0, 9).Draw(t, l+"any") == 0 {
				return rapid.IntRange(0, len(w.terms)-1).Draw(t, l)
			}
			return rapid.SampledFrom(g).Draw(t, l)
		}
		c := EqCase{Depth: depth, A: pick("a"), B: pick("b"), C: pick("c"), Law: "transitive"}
		if vf.Report(t, judgeEq(w, c)) {
			return
		}
		vf.Case(fmt.Sprintf("tr:%d:%d:%d", c.A, c.B, c.C), nontrivialPair(w.terms[c.A], w.terms[c.B]) || nontrivialPair(w.terms[c.B], w.terms[c.C]), "part:a-transitivity-triples")
	})
}

// (b) acceptance of init / assign / cast for ordered pairs of writable types.
func TestPositions(t *testing.T) {
	defer vf.AfterCheck(t)
	var terms []*Term
	for _, tm := range universe(3) {
		if tm.writable() {
			terms = append(terms, tm)
		}
	}
	vf.SetExtra("writable_types", len(terms))
	byCanon := map[string][]*Term{}
	for _, tm := range terms {
		byCanon[tm.canon()] = append(byCanon[tm.canon()], tm)
	}
	vf.Checks(24000, 600000)
	rapid.Check(t, func(t *rapid.T) {
		S := rapid.SampledFrom(terms).Draw(t, "S")
		var T *Term
		switch rapid.IntRange(0, 5).Draw(t, "rel") {
		case 0, 1: // equivalent type
			T = rapid.SampledFrom(byCanon[S.canon()]).Draw(t, "Teq")
		case 2: // a neighbour: base/target/element or a type built on S
			var nb []*Term
			for _, x := range terms {
				if x.Sub == S || S.Sub == x || (x.Sub != nil && x.Sub == S.Sub) {
					nb = append(nb, x)
				}
			}
			if len(nb) == 0 {
				nb = terms
			}
			T = rapid.SampledFrom(nb).Draw(t, "Tnb")
		default:
			T = rapid.SampledFrom(terms).Draw(t, "T")
		}
		pos := rapid.SampledFrom([]string{"init", "assign", "cast"}).Draw(t, "pos")
		if pos == "cast" && !castJudged(S, T) {
			pos = "init"
		}
		c := mkPair(S, T, pos)
		if vf.Report(t, judgePair(c)) {
			return
		}
		// the two positions always agree
		if pos != "cast" {
			other := map[string]string{"init": "assign", "assign": "init"}[pos]
			if vf.Report(t, judgePair(mkPair(S, T, other))) {
				return
			}
		}
		nt := nontrivialPair(S, T)
		vf.Case(fmt.Sprintf("%s:%d:%d", pos, S.ID, T.ID), nt, "part:b-"+pos, fmt.Sprintf("expect-accept:%v", c.Expect))
		if nt {
			vf.Sample("position-"+pos, map[string]any{"S": c.S, "T": c.T, "position": pos, "expect_accept": c.Expect, "program": c.Program})
		}
	})
}
