// C17: Duden list, text, number and sorting functions meet their specification.
//
// Generated driver programs call documented Duden functions with generated arguments inside their documented
// domain, print the result and every argument afterwards; Go models written from the doc comments (sequence
// operations on slices / []rune) predict the output. Value variants must leave their arguments unchanged,
// Referenz variants must show exactly the documented effect.
package c17

import (
	"encoding/json"
	"fmt"
	"os"
	"path/filepath"
	"sort"
	"strings"
	"testing"
	"unicode/utf8"

	"pgregory.net/rapid"
	"verif/ddp"
	"verif/vf"
)

// ---------------------------------------------------------------- values

type V struct {
	K string   `json:"k"` // zahl | text | char | bool | zl (Zahlen Liste) | tl (Text Liste) | bl (Buchstaben Liste)
	I int64    `json:"i,omitempty"`
	S string   `json:"s,omitempty"`
	L []int64  `json:"l,omitempty"`
	T []string `json:"t,omitempty"`
}

func zahl(i int64) V   { return V{K: "zahl", I: i} }
func text(s string) V  { return V{K: "text", S: s} }
func char(r rune) V    { return V{K: "char", S: string(r)} }
func boolean(b bool) V { return V{K: "bool", I: map[bool]int64{true: 1}[b]} }
func zl(l []int64) V   { return V{K: "zl", L: append([]int64{}, l...)} }
func tl(t []string) V  { return V{K: "tl", T: append([]string{}, t...)} }
func bl(rs []rune) V {
	v := V{K: "bl"}
	for _, r := range rs {
		v.T = append(v.T, string(r))
	}
	return v
}

var typeName = map[string]string{"zahl": "Die Zahl", "text": "Der Text", "char": "Der Buchstabe", "bool": "Der Wahrheitswert", "zl": "Die Zahlen Liste", "tl": "Die Text Liste", "bl": "Die Buchstaben Liste"}
var emptyList = map[string]string{"zl": "eine leere Zahlen Liste", "tl": "eine leere Text Liste", "bl": "eine leere Buchstaben Liste"}

func lit(v V) string {
	switch v.K {
	case "zahl":
		if v.I < 0 {
			return fmt.Sprintf("(-%d)", -v.I)
		}
		return fmt.Sprint(v.I)
	case "text":
		return "\"" + v.S + "\""
	case "char":
		return "'" + v.S + "'"
	case "bool":
		if v.I == 1 {
			return "wahr"
		}
		return "falsch"
	case "zl":
		if len(v.L) == 0 {
			return emptyList["zl"]
		}
		var p []string
		for _, x := range v.L {
			p = append(p, lit(zahl(x)))
		}
		return "eine Liste, die aus " + strings.Join(p, ", ") + " besteht"
	default:
		if len(v.T) == 0 {
			return emptyList[v.K]
		}
		var p []string
		for _, x := range v.T {
			if v.K == "tl" {
				p = append(p, "\""+x+"\"")
			} else {
				p = append(p, "'"+x+"'")
			}
		}
		return "eine Liste, die aus " + strings.Join(p, ", ") + " besteht"
	}
}

// what the driver prints for a value
func shown(v V) string {
	switch v.K {
	case "zahl":
		return fmt.Sprintf("%d\n", v.I)
	case "text":
		return fmt.Sprintf("%d>%s\n", utf8.RuneCountInString(v.S), v.S)
	case "char":
		return v.S + "\n"
	case "bool":
		if v.I == 1 {
			return "wahr\n"
		}
		return "falsch\n"
	case "zl":
		var p []string
		for _, x := range v.L {
			p = append(p, fmt.Sprint(x))
		}
		return fmt.Sprintf("%d: %s\n", len(v.L), strings.Join(p, ", "))
	default:
		s := fmt.Sprintf("%d\n", len(v.T))
		for _, x := range v.T {
			s += ">" + x + "\n"
		}
		return s
	}
}

func show(v V, expr string) string {
	switch v.K {
	case "text":
		return "Schreibe (die Länge von " + expr + ").\nSchreibe \">\".\nSchreibe " + expr + " auf eine Zeile.\n"
	case "zl":
		return "Schreibe (die Länge von " + expr + ").\nSchreibe \": \".\nSchreibe " + expr + " auf eine Zeile.\n"
	case "tl":
		return "zeige die Texte " + expr + ".\n"
	case "bl":
		return "zeige die Buchstaben " + expr + ".\n"
	default:
		return "Schreibe " + expr + " auf eine Zeile.\n"
	}
}

const prelude = `Binde "Duden/Ausgabe" ein.
Binde "Duden/Listen" ein.
Binde "Duden/Texte" ein.
Binde "Duden/Sortierung" ein.
Binde "Duden/Mathe" ein.
Binde "Duden/Statistik" ein.

Die Funktion zeige_texte mit dem Parameter l vom Typ Text Liste, gibt nichts zurück, macht:
	Schreibe (die Länge von l) auf eine Zeile.
	Für jeden Text e in l, mache:
		Schreibe ">".
		Schreibe e auf eine Zeile.
Und kann so benutzt werden:
	"zeige die Texte <l>"

Die Funktion zeige_buchstaben mit dem Parameter l vom Typ Buchstaben Liste, gibt nichts zurück, macht:
	Schreibe (die Länge von l) auf eine Zeile.
	Für jeden Buchstaben e in l, mache:
		Schreibe ">".
		Schreibe e auf eine Zeile.
Und kann so benutzt werden:
	"zeige die Buchstaben <l>"

`

// ---------------------------------------------------------------- function table

type Call struct {
	Fn   string `json:"fn"`
	Args []V    `json:"args"`
}

type fn struct {
	name string
	gen  func(t *rapid.T) []V
	// expr renders the call for argument expressions a[i]; stmt=true: it is a statement that changes a[0]
	expr func(a []string) string
	stmt bool
	// model: result (value variants) or the new value of args[0] (statement variants); boundary = non-trivial call
	model func(a []V) (V, bool)
}

var letters = []rune{'a', 'b', 'c', 'ä', '€', '-', ' ', 'x'}

func genRunes(t *rapid.T, l string, lo, hi int) []rune {
	n := rapid.IntRange(lo, hi).Draw(t, l+"-len")
	rs := make([]rune, n)
	for i := range rs {
		rs[i] = rapid.SampledFrom(letters).Draw(t, l)
	}
	return rs
}
func genText(t *rapid.T, l string, lo, hi int) V { return text(string(genRunes(t, l, lo, hi))) }
func genChar(t *rapid.T, l string) V             { return char(rapid.SampledFrom(letters).Draw(t, l)) }
func genZL(t *rapid.T, l string, lo, hi int) V {
	n := rapid.IntRange(lo, hi).Draw(t, l+"-len")
	xs := make([]int64, n)
	for i := range xs {
		xs[i] = int64(rapid.IntRange(-3, 6).Draw(t, l))
	}
	return zl(xs)
}
func genTL(t *rapid.T, l string, lo, hi int) V {
	n := rapid.IntRange(lo, hi).Draw(t, l+"-len")
	xs := make([]string, n)
	for i := range xs {
		xs[i] = string(genRunes(t, l, 0, 3))
	}
	return tl(xs)
}
func genIdx(t *rapid.T, l string, n int) V { return zahl(int64(rapid.IntRange(1, n).Draw(t, l))) }

func rs(v V) []rune { return []rune(v.S) }

func indexRunes(h, n []rune) int {
	for i := 0; i+len(n) <= len(h); i++ {
		if string(h[i:i+len(n)]) == string(n) {
			return i
		}
	}
	return -1
}

func gcd(a, b int64) int64 {
	for b != 0 {
		a, b = b, a%b
	}
	return a
}

func levenshtein(a, b []rune) int64 {
	prev := make([]int, len(b)+1)
	for j := range prev {
		prev[j] = j
	}
	for i := 1; i <= len(a); i++ {
		cur := make([]int, len(b)+1)
		cur[0] = i
		for j := 1; j <= len(b); j++ {
			c := 1
			if a[i-1] == b[j-1] {
				c = 0
			}
			cur[j] = min(prev[j]+1, cur[j-1]+1, prev[j-1]+c)
		}
		prev = cur
	}
	return int64(prev[len(b)])
}

var table = []fn{
	// ---- Duden/Listen (generic; Zahl and Text element types)
	{name: "Listen.Hinzufügen(Zahl)", stmt: true, gen: func(t *rapid.T) []V { return []V{genZL(t, "l", 0, 5), zahl(int64(rapid.IntRange(-5, 9).Draw(t, "x")))} },
		expr: func(a []string) string { return "Füge " + a[1] + " an " + a[0] + " an" }, model: func(a []V) (V, bool) { return zl(append(a[0].L, a[1].I)), len(a[0].L) == 0 }},
	{name: "Listen.Hinzufügen(Text)", stmt: true, gen: func(t *rapid.T) []V { return []V{genTL(t, "l", 0, 4), genText(t, "x", 0, 3)} },
		expr: func(a []string) string { return "Füge " + a[1] + " an " + a[0] + " an" }, model: func(a []V) (V, bool) { return tl(append(a[0].T, a[1].S)), len(a[0].T) == 0 || a[1].S == "" }},
	{name: "Listen.Hinzufügen_Liste", stmt: true, gen: func(t *rapid.T) []V { return []V{genZL(t, "l", 0, 4), genZL(t, "o", 0, 4)} },
		expr: func(a []string) string { return "Füge " + a[1] + " an " + a[0] + " an" }, model: func(a []V) (V, bool) { return zl(append(a[0].L, a[1].L...)), len(a[0].L) == 0 || len(a[1].L) == 0 }},
	{name: "Listen.Einfügen", stmt: true, gen: func(t *rapid.T) []V {
		l := genTL(t, "l", 1, 5)
		return []V{l, genIdx(t, "i", len(l.T)), genText(t, "x", 0, 3)}
	}, expr: func(a []string) string { return "Setze " + a[2] + " an die Stelle " + a[1] + " von " + a[0] },
		model: func(a []V) (V, bool) {
			i := int(a[1].I)
			n := append(append(append([]string{}, a[0].T[:i-1]...), a[2].S), a[0].T[i-1:]...)
			return tl(n), i == 1 || i == len(a[0].T)
		}},
	{name: "Listen.Voranstellen", stmt: true, gen: func(t *rapid.T) []V { return []V{genZL(t, "l", 0, 5), zahl(int64(rapid.IntRange(-5, 9).Draw(t, "x")))} },
		expr: func(a []string) string { return "Stelle " + a[1] + " vor " + a[0] }, model: func(a []V) (V, bool) { return zl(append([]int64{a[1].I}, a[0].L...)), len(a[0].L) == 0 }},
	{name: "Listen.Voranstellen_Liste", stmt: true, gen: func(t *rapid.T) []V { return []V{genTL(t, "l", 0, 4), genTL(t, "o", 0, 4)} },
		expr: func(a []string) string { return "Stelle " + a[1] + " vor " + a[0] }, model: func(a []V) (V, bool) {
			return tl(append(append([]string{}, a[1].T...), a[0].T...)), len(a[0].T) == 0 || len(a[1].T) == 0
		}},
	{name: "Listen.Lösche_Element", stmt: true, gen: func(t *rapid.T) []V {
		l := genZL(t, "l", 1, 6)
		return []V{l, genIdx(t, "i", len(l.L))}
	}, expr: func(a []string) string { return "Lösche das Element an der Stelle " + a[1] + " aus " + a[0] },
		model: func(a []V) (V, bool) {
			i := int(a[1].I)
			return zl(append(append([]int64{}, a[0].L[:i-1]...), a[0].L[i:]...)), i == 1 || i == len(a[0].L)
		}},
	{name: "Listen.Lösche_Bereich", stmt: true, gen: func(t *rapid.T) []V {
		l := genTL(t, "l", 1, 6)
		s := rapid.IntRange(1, len(l.T)).Draw(t, "s")
		e := rapid.IntRange(s, len(l.T)).Draw(t, "e")
		return []V{l, zahl(int64(s)), zahl(int64(e))}
	}, expr: func(a []string) string { return "Lösche alle Elemente von " + a[1] + " bis " + a[2] + " aus " + a[0] },
		model: func(a []V) (V, bool) {
			s, e := int(a[1].I), int(a[2].I)
			return tl(append(append([]string{}, a[0].T[:s-1]...), a[0].T[e:]...)), s == 1 || e == len(a[0].T) || s == e
		}},
	{name: "Listen.Füllen", stmt: true, gen: func(t *rapid.T) []V { return []V{genZL(t, "l", 0, 5), zahl(int64(rapid.IntRange(-5, 9).Draw(t, "x")))} },
		expr: func(a []string) string { return "Fülle " + a[0] + " mit " + a[1] }, model: func(a []V) (V, bool) {
			n := make([]int64, len(a[0].L))
			for i := range n {
				n[i] = a[1].I
			}
			return zl(n), len(n) == 0
		}},
	{name: "Listen.Index_Von_Element", gen: func(t *rapid.T) []V { return []V{genZL(t, "l", 0, 6), zahl(int64(rapid.IntRange(-3, 6).Draw(t, "x")))} },
		expr: func(a []string) string { return "der Index von " + a[1] + " in " + a[0] }, model: func(a []V) (V, bool) {
			for i, x := range a[0].L {
				if x == a[1].I {
					return zahl(int64(i + 1)), i == 0 || i == len(a[0].L)-1
				}
			}
			return zahl(-1), true
		}},
	{name: "Listen.Enthält(Text)", gen: func(t *rapid.T) []V { return []V{genTL(t, "l", 0, 5), genText(t, "x", 0, 2)} },
		expr: func(a []string) string { return a[0] + " " + a[1] + " enthält" }, model: func(a []V) (V, bool) {
			for _, x := range a[0].T {
				if x == a[1].S {
					return boolean(true), a[1].S == ""
				}
			}
			return boolean(false), len(a[0].T) == 0
		}},
	{name: "Listen.Erste_N", gen: func(t *rapid.T) []V {
		l := genZL(t, "l", 1, 6)
		return []V{l, genIdx(t, "n", len(l.L))}
	}, expr: func(a []string) string { return "die ersten " + a[1] + " Elemente von " + a[0] },
		model: func(a []V) (V, bool) { return zl(a[0].L[:a[1].I]), a[1].I == 1 || int(a[1].I) == len(a[0].L) }},
	{name: "Listen.Letzten_N", gen: func(t *rapid.T) []V {
		l := genTL(t, "l", 1, 6)
		return []V{l, genIdx(t, "n", len(l.T))}
	}, expr: func(a []string) string { return "die letzten " + a[1] + " Elemente von " + a[0] },
		model: func(a []V) (V, bool) {
			return tl(a[0].T[len(a[0].T)-int(a[1].I):]), a[1].I == 1 || int(a[1].I) == len(a[0].T)
		}},
	{name: "Listen.Spiegeln", gen: func(t *rapid.T) []V { return []V{genTL(t, "l", 0, 6)} },
		expr: func(a []string) string { return a[0] + " gespiegelt" }, model: func(a []V) (V, bool) {
			n := make([]string, len(a[0].T))
			for i, x := range a[0].T {
				n[len(n)-1-i] = x
			}
			return tl(n), len(n) <= 1
		}},
	{name: "Listen.Summe", gen: func(t *rapid.T) []V { return []V{genZL(t, "l", 1, 6)} },
		expr: func(a []string) string { return "die Summe aller Elemente in " + a[0] }, model: func(a []V) (V, bool) {
			var s int64
			for _, x := range a[0].L {
				s += x
			}
			return zahl(s), len(a[0].L) == 1
		}},
	{name: "Listen.Produkt", gen: func(t *rapid.T) []V { return []V{genZL(t, "l", 0, 6)} },
		expr: func(a []string) string { return "das Produkt aller Elemente in " + a[0] }, model: func(a []V) (V, bool) {
			if len(a[0].L) == 0 {
				return zahl(0), true // documented: f({}) = 0
			}
			p := int64(1)
			for _, x := range a[0].L {
				p *= x
			}
			return zahl(p), len(a[0].L) == 1
		}},
	{name: "Listen.Aufsteigende_Zahlen", gen: func(t *rapid.T) []V {
		s := rapid.IntRange(-4, 4).Draw(t, "s")
		return []V{zahl(int64(s)), zahl(int64(s + rapid.IntRange(0, 6).Draw(t, "d")))}
	}, expr: func(a []string) string { return "eine aufsteigende Zahlen Liste von " + a[0] + " bis " + a[1] },
		model: func(a []V) (V, bool) {
			var l []int64
			for x := a[0].I; x <= a[1].I; x++ {
				l = append(l, x)
			}
			return zl(l), a[0].I == a[1].I
		}},
	{name: "Listen.Absteigende_Zahlen", gen: func(t *rapid.T) []V {
		s := rapid.IntRange(-4, 4).Draw(t, "s")
		return []V{zahl(int64(s)), zahl(int64(s - rapid.IntRange(0, 6).Draw(t, "d")))}
	}, expr: func(a []string) string { return "eine absteigende Zahlen Liste von " + a[0] + " bis " + a[1] },
		model: func(a []V) (V, bool) {
			var l []int64
			for x := a[0].I; x >= a[1].I; x-- {
				l = append(l, x)
			}
			return zl(l), a[0].I == a[1].I
		}},
	{name: "Listen.Verketten_Text_Liste", gen: func(t *rapid.T) []V { return []V{genTL(t, "l", 0, 5)} },
		expr: func(a []string) string { return "alle Texte in " + a[0] + " aneinandergehängt" }, model: func(a []V) (V, bool) { return text(strings.Join(a[0].T, "")), len(a[0].T) == 0 }},
	// ---- Duden/Sortierung
	{name: "Sortierung.Quicksort", gen: func(t *rapid.T) []V { return []V{genZL(t, "l", 0, 8)} },
		expr: func(a []string) string { return a[0] + " sortiert" }, model: func(a []V) (V, bool) {
			n := append([]int64{}, a[0].L...)
			sort.Slice(n, func(i, j int) bool { return n[i] < n[j] })
			return zl(n), len(n) <= 1
		}},
	{name: "Sortierung.Quicksort_Ref", stmt: true, gen: func(t *rapid.T) []V { return []V{genZL(t, "l", 0, 8)} },
		expr: func(a []string) string { return "Sortiere " + a[0] }, model: func(a []V) (V, bool) {
			n := append([]int64{}, a[0].L...)
			sort.Slice(n, func(i, j int) bool { return n[i] < n[j] })
			return zl(n), len(n) <= 1
		}},
	// ---- Duden/Texte
	{name: "Texte.Entferne_Anzahl_Vorne", gen: func(t *rapid.T) []V {
		return []V{genText(t, "t", 0, 6), zahl(int64(rapid.IntRange(-2, 8).Draw(t, "n")))}
	},
		expr: func(a []string) string { return a[0] + " mit den ersten " + a[1] + " Buchstaben entfernt" }, model: func(a []V) (V, bool) {
			r, n := rs(a[0]), max(a[1].I, 0)
			if n >= int64(len(r)) {
				return text(""), true
			}
			return text(string(r[n:])), n == 0
		}},
	{name: "Texte.Entferne_Anzahl_Hinten", gen: func(t *rapid.T) []V {
		return []V{genText(t, "t", 0, 6), zahl(int64(rapid.IntRange(-2, 8).Draw(t, "n")))}
	},
		expr: func(a []string) string { return a[0] + " mit den letzten " + a[1] + " Buchstaben entfernt" }, model: func(a []V) (V, bool) {
			r, n := rs(a[0]), max(a[1].I, 0)
			if n >= int64(len(r)) {
				return text(""), true
			}
			return text(string(r[:int64(len(r))-n])), n == 0
		}},
	{name: "Texte.Trim_Wert", gen: func(t *rapid.T) []V { return []V{genText(t, "t", 0, 7), genChar(t, "c")} },
		expr: func(a []string) string { return a[0] + " mit allen " + a[1] + " davor und danach entfernt" }, model: func(a []V) (V, bool) {
			s := strings.Trim(a[0].S, a[1].S)
			return text(s), s != a[0].S
		}},
	{name: "Texte.Trim_Anfang_Wert", gen: func(t *rapid.T) []V { return []V{genText(t, "t", 0, 7), genChar(t, "c")} },
		expr: func(a []string) string { return a[0] + " mit allen " + a[1] + " davor entfernt" }, model: func(a []V) (V, bool) {
			s := strings.TrimLeft(a[0].S, a[1].S)
			return text(s), s != a[0].S
		}},
	{name: "Texte.Trim_Ende_Wert", gen: func(t *rapid.T) []V { return []V{genText(t, "t", 0, 7), genChar(t, "c")} },
		expr: func(a []string) string { return a[0] + " mit allen " + a[1] + " danach entfernt" }, model: func(a []V) (V, bool) {
			s := strings.TrimRight(a[0].S, a[1].S)
			return text(s), s != a[0].S
		}},
	{name: "Texte.Anzahl_Buchstabe", gen: func(t *rapid.T) []V { return []V{genText(t, "t", 0, 8), genChar(t, "c")} },
		expr: func(a []string) string { return "die Anzahl der " + a[1] + " Buchstaben in " + a[0] }, model: func(a []V) (V, bool) {
			n := int64(strings.Count(a[0].S, a[1].S))
			return zahl(n), n > 0 && len(a[1].S) > 1
		}},
	{name: "Texte.Enthält_Text", gen: func(t *rapid.T) []V { return []V{genText(t, "t", 0, 7), genText(t, "s", 1, 3)} },
		expr: func(a []string) string { return a[0] + " " + a[1] + " enthält" }, model: func(a []V) (V, bool) {
			return boolean(strings.Contains(a[0].S, a[1].S)), len(a[0].S) != utf8.RuneCountInString(a[0].S)
		}},
	{name: "Texte.Anzahl_Text_überlappend", gen: func(t *rapid.T) []V { return []V{genText(t, "t", 0, 8), genText(t, "s", 1, 3)} },
		expr: func(a []string) string { return "die Anzahl der Subtexte " + a[1] + " in " + a[0] }, model: func(a []V) (V, bool) {
			h, n := rs(a[0]), rs(a[1])
			var c int64
			for i := 0; i+len(n) <= len(h); i++ {
				if string(h[i:i+len(n)]) == string(n) {
					c++
				}
			}
			return zahl(c), c >= 2
		}},
	{name: "Texte.Beginnt_Mit_Text", gen: func(t *rapid.T) []V { return []V{genText(t, "t", 0, 6), genText(t, "s", 1, 3)} },
		expr: func(a []string) string { return a[1] + " am Anfang von " + a[0] + " steht" }, model: func(a []V) (V, bool) {
			return boolean(strings.HasPrefix(a[0].S, a[1].S)), len(rs(a[1])) > len(rs(a[0])) || a[0].S == a[1].S
		}},
	{name: "Texte.Endet_Mit_Text", gen: func(t *rapid.T) []V { return []V{genText(t, "t", 0, 6), genText(t, "s", 1, 3)} },
		expr: func(a []string) string { return a[1] + " am Ende von " + a[0] + " steht" }, model: func(a []V) (V, bool) {
			return boolean(strings.HasSuffix(a[0].S, a[1].S)), len(rs(a[1])) > len(rs(a[0])) || a[0].S == a[1].S
		}},
	{name: "Texte.Index_Von_Buchstabe", gen: func(t *rapid.T) []V { return []V{genText(t, "t", 0, 7), genChar(t, "c")} },
		expr: func(a []string) string { return "der Index von " + a[1] + " in " + a[0] }, model: func(a []V) (V, bool) {
			i := indexRunes(rs(a[0]), rs(a[1]))
			if i < 0 {
				return zahl(-1), true
			}
			return zahl(int64(i + 1)), len(a[0].S) != len(rs(a[0]))
		}},
	{name: "Texte.Index_Von_Text", gen: func(t *rapid.T) []V { return []V{genText(t, "t", 0, 7), genText(t, "s", 1, 3)} },
		expr: func(a []string) string { return "der Index von " + a[1] + " in " + a[0] }, model: func(a []V) (V, bool) {
			i := indexRunes(rs(a[0]), rs(a[1]))
			if i < 0 {
				return zahl(-1), true
			}
			return zahl(int64(i + 1)), len(a[0].S) != len(rs(a[0]))
		}},
	{name: "Texte.Polster_Links", gen: func(t *rapid.T) []V {
		return []V{genText(t, "t", 0, 5), genChar(t, "c"), zahl(int64(rapid.IntRange(0, 8).Draw(t, "n")))}
	},
		expr: func(a []string) string { return a[0] + " mit " + a[2] + " " + a[1] + " links gepolstert" }, model: func(a []V) (V, bool) {
			r := rs(a[0])
			s := a[0].S
			for n := int64(len(r)); n < a[2].I; n++ {
				s = a[1].S + s
			}
			return text(s), int64(len(r)) >= a[2].I || len(r) == 0
		}},
	{name: "Texte.Polster_Rechts", gen: func(t *rapid.T) []V {
		return []V{genText(t, "t", 0, 5), genChar(t, "c"), zahl(int64(rapid.IntRange(0, 8).Draw(t, "n")))}
	},
		expr: func(a []string) string { return a[0] + " mit " + a[2] + " " + a[1] + " rechts gepolstert" }, model: func(a []V) (V, bool) {
			r := rs(a[0])
			s := a[0].S
			for n := int64(len(r)); n < a[2].I; n++ {
				s += a[1].S
			}
			return text(s), int64(len(r)) >= a[2].I || len(r) == 0
		}},
	{name: "Texte.Spalte", gen: func(t *rapid.T) []V { return []V{genText(t, "t", 1, 8), genChar(t, "c")} },
		expr: func(a []string) string { return a[0] + " an " + a[1] + " gespalten" }, model: func(a []V) (V, bool) {
			p := strings.Split(a[0].S, a[1].S)
			return tl(p), len(p) > 1 && (p[0] == "" || p[len(p)-1] == "")
		}},
	{name: "Texte.Verbinden_Text", gen: func(t *rapid.T) []V { return []V{genTL(t, "l", 0, 5), genChar(t, "c")} },
		expr: func(a []string) string { return a[0] + " mit dem Trennzeichen " + a[1] + " zum Text verbunden" }, model: func(a []V) (V, bool) {
			return text(strings.Join(a[0].T, a[1].S)), len(a[0].T) > 1 && a[0].T[0] == ""
		}},
	{name: "Texte.Verbinden_Zahl", gen: func(t *rapid.T) []V { return []V{genZL(t, "l", 0, 5), genChar(t, "c")} },
		expr: func(a []string) string { return a[0] + " mit dem Trennzeichen " + a[1] + " zum Text verbunden" }, model: func(a []V) (V, bool) {
			var p []string
			for _, x := range a[0].L {
				p = append(p, fmt.Sprint(x))
			}
			return text(strings.Join(p, a[1].S)), len(p) <= 1
		}},
	{name: "Texte.Hamming_Distanz", gen: func(t *rapid.T) []V {
		a := genRunes(t, "a", 0, 6)
		b := genRunes(t, "b", 0, 6)
		if rapid.Bool().Draw(t, "same-length") {
			for len(b) < len(a) {
				b = append(b, 'a')
			}
			b = b[:len(a)]
		}
		return []V{text(string(a)), text(string(b))}
	}, expr: func(a []string) string {
		return "die Zahl der Änderungen benötigt um " + a[0] + " in " + a[1] + " umzuwandeln"
	},
		model: func(a []V) (V, bool) {
			x, y := rs(a[0]), rs(a[1])
			if len(x) != len(y) {
				return zahl(-1), true
			}
			var d int64
			for i := range x {
				if x[i] != y[i] {
					d++
				}
			}
			return zahl(d), len(a[0].S) != len(x)
		}},
	{name: "Texte.Levenshtein_Distanz", gen: func(t *rapid.T) []V { return []V{genText(t, "a", 0, 6), genText(t, "b", 0, 6)} },
		expr: func(a []string) string { return "wie ähnlich " + a[0] + " und " + a[1] + " sind" },
		model: func(a []V) (V, bool) {
			return zahl(levenshtein(rs(a[0]), rs(a[1]))), a[0].S == "" || a[1].S == "" || len(a[0].S) != len(rs(a[0]))
		}},
	{name: "Texte.Buchstaben_in_Text", gen: func(t *rapid.T) []V { return []V{genText(t, "t", 0, 6)} },
		expr: func(a []string) string { return "die Buchstaben in " + a[0] }, model: func(a []V) (V, bool) { return bl(rs(a[0])), len(a[0].S) != len(rs(a[0])) || a[0].S == "" }},
	// ---- Duden/Mathe, Statistik
	{name: "Mathe.ggT", gen: func(t *rapid.T) []V {
		return []V{zahl(int64(rapid.IntRange(1, 200).Draw(t, "a"))), zahl(int64(rapid.IntRange(1, 200).Draw(t, "b")))}
	},
		expr: func(a []string) string { return "der größte gemeinsame Teiler von " + a[0] + " und " + a[1] }, model: func(a []V) (V, bool) { return zahl(gcd(a[0].I, a[1].I)), a[0].I == a[1].I || gcd(a[0].I, a[1].I) == 1 }},
	{name: "Mathe.kgV", gen: func(t *rapid.T) []V {
		return []V{zahl(int64(rapid.IntRange(1, 60).Draw(t, "a"))), zahl(int64(rapid.IntRange(1, 60).Draw(t, "b")))}
	},
		expr: func(a []string) string { return "das kleinste gemeinsame Vielfache von " + a[0] + " und " + a[1] }, model: func(a []V) (V, bool) { return zahl(a[0].I / gcd(a[0].I, a[1].I) * a[1].I), a[0].I == a[1].I }},
	{name: "Mathe.Primfaktoren", gen: func(t *rapid.T) []V {
		if rapid.Bool().Draw(t, "smooth") { // products of few small primes: squares of primes and repeated factors
			ps := []int64{2, 3, 5, 7, 11, 13, 101}
			z := int64(1)
			for k := rapid.IntRange(1, 4).Draw(t, "nf"); k > 0; k-- {
				z *= rapid.SampledFrom(ps).Draw(t, "p")
			}
			return []V{zahl(z)}
		}
		return []V{zahl(int64(rapid.IntRange(2, 5000).Draw(t, "z")))}
	}, expr: func(a []string) string { return "(die Primfaktoren von " + a[0] + ") sortiert" },
		model: func(a []V) (V, bool) {
			var f []int64
			z := a[0].I
			for p := int64(2); p*p <= z; p++ {
				for z%p == 0 {
					f = append(f, p)
					z /= p
				}
			}
			if z > 1 {
				f = append(f, z)
			}
			return zl(f), len(f) >= 2 && f[len(f)-1] == f[len(f)-2]
		}},
	{name: "Mathe.Teiler", gen: func(t *rapid.T) []V { return []V{zahl(int64(rapid.IntRange(1, 300).Draw(t, "z")))} },
		expr: func(a []string) string { return "(alle Teiler von " + a[0] + ") sortiert" }, model: func(a []V) (V, bool) {
			var f []int64
			for d := int64(1); d <= a[0].I; d++ {
				if a[0].I%d == 0 {
					f = append(f, d)
				}
			}
			return zl(f), len(f) <= 2
		}},
	{name: "Mathe.Clamp", gen: func(t *rapid.T) []V {
		lo := rapid.IntRange(-5, 5).Draw(t, "lo")
		return []V{zahl(int64(rapid.IntRange(-9, 12).Draw(t, "w"))), zahl(int64(lo)), zahl(int64(lo + rapid.IntRange(0, 6).Draw(t, "d")))}
	}, expr: func(a []string) string { return a[0] + " zwischen " + a[1] + " und " + a[2] }, model: func(a []V) (V, bool) {
		w := a[0].I
		return zahl(min(max(w, a[1].I), a[2].I)), w <= a[1].I || w >= a[2].I
	}},
	{name: "Mathe.Fakultät", gen: func(t *rapid.T) []V { return []V{zahl(int64(rapid.IntRange(0, 20).Draw(t, "x")))} },
		expr: func(a []string) string { return a[0] + " Fakultät" }, model: func(a []V) (V, bool) {
			f := int64(1)
			for k := int64(2); k <= a[0].I; k++ {
				f *= k
			}
			return zahl(f), a[0].I <= 1 || a[0].I == 20
		}},
	{name: "Statistik.Höchste", gen: func(t *rapid.T) []V { return []V{genZL(t, "l", 1, 6)} },
		expr: func(a []string) string { return "der höchste Wert aus " + a[0] }, model: func(a []V) (V, bool) {
			m := a[0].L[0]
			for _, x := range a[0].L {
				m = max(m, x)
			}
			return zahl(m), len(a[0].L) == 1
		}},
	{name: "Statistik.Kleinste", gen: func(t *rapid.T) []V { return []V{genZL(t, "l", 1, 6)} },
		expr: func(a []string) string { return "der kleinste Wert aus " + a[0] }, model: func(a []V) (V, bool) {
			m := a[0].L[0]
			for _, x := range a[0].L {
				m = min(m, x)
			}
			return zahl(m), len(a[0].L) == 1
		}},

	// ---- second batch: more of Duden/Texte, Listen, Mathe
	{name: "Texte.Lösche_Text", stmt: true, gen: func(t *rapid.T) []V {
		x := genText(t, "t", 1, 6)
		return []V{x, genIdx(t, "i", len(rs(x)))}
	}, expr: func(a []string) string { return "Lösche das Element an der Stelle " + a[1] + " aus " + a[0] },
		model: func(a []V) (V, bool) {
			r, i := rs(a[0]), int(a[1].I)
			return text(string(r[:i-1]) + string(r[i:])), i == 1 || i == len(r)
		}},
	{name: "Texte.Lösche_Text_Bereich", stmt: true, gen: func(t *rapid.T) []V {
		x := genText(t, "t", 1, 6)
		n := len(rs(x))
		s := rapid.IntRange(1, n).Draw(t, "s")
		return []V{x, zahl(int64(s)), zahl(int64(rapid.IntRange(s, n).Draw(t, "e")))}
	}, expr: func(a []string) string {
		return "Lösche alle Elemente im Bereich von " + a[1] + " bis " + a[2] + " aus " + a[0]
	},
		model: func(a []V) (V, bool) {
			r, s, e := rs(a[0]), int(a[1].I), int(a[2].I)
			return text(string(r[:s-1]) + string(r[e:])), s == 1 || e == len(r)
		}},
	{name: "Texte.Text_In_Text_Einfügen", stmt: true, gen: func(t *rapid.T) []V {
		x := genText(t, "t", 1, 6)
		return []V{x, genIdx(t, "i", len(rs(x))), genText(t, "e", 0, 3)}
	}, expr: func(a []string) string { return "Setze " + a[2] + " an die Stelle " + a[1] + " von " + a[0] },
		model: func(a []V) (V, bool) {
			r, i := rs(a[0]), int(a[1].I)
			return text(string(r[:i-1]) + a[2].S + string(r[i-1:])), i == 1 || i == len(r)
		}},
	{name: "Texte.Buchstabe_In_Text_Einfügen", stmt: true, gen: func(t *rapid.T) []V {
		x := genText(t, "t", 1, 6)
		return []V{x, genIdx(t, "i", len(rs(x))), genChar(t, "c")}
	}, expr: func(a []string) string { return "Setze " + a[2] + " an die Stelle " + a[1] + " von " + a[0] },
		model: func(a []V) (V, bool) {
			r, i := rs(a[0]), int(a[1].I)
			return text(string(r[:i-1]) + a[2].S + string(r[i-1:])), i == 1 || i == len(r)
		}},
	{name: "Texte.Text_Vor_Text_Stellen", stmt: true, gen: func(t *rapid.T) []V { return []V{genText(t, "t", 0, 5), genText(t, "e", 0, 3)} },
		expr: func(a []string) string { return "Stelle " + a[1] + " vor " + a[0] }, model: func(a []V) (V, bool) { return text(a[1].S + a[0].S), a[0].S == "" || a[1].S == "" }},
	{name: "Texte.Buchstabe_An_Text_Fügen", stmt: true, gen: func(t *rapid.T) []V { return []V{genText(t, "t", 0, 5), genChar(t, "c")} },
		expr: func(a []string) string { return "Füge " + a[1] + " an " + a[0] + " an" }, model: func(a []V) (V, bool) { return text(a[0].S + a[1].S), a[0].S == "" }},
	{name: "Texte.Fülle_Text", stmt: true, gen: func(t *rapid.T) []V { return []V{genText(t, "t", 0, 6), genChar(t, "c")} },
		expr: func(a []string) string { return "Fülle " + a[0] + " mit " + a[1] }, model: func(a []V) (V, bool) {
			return text(strings.Repeat(a[1].S, len(rs(a[0])))), len(a[0].S) != len(rs(a[0])) || len(a[1].S) > 1
		}},
	{name: "Texte.Finde_Subtext", gen: func(t *rapid.T) []V {
		return []V{genText(t, "t", 0, 8), text(rapid.SampledFrom([]string{"a", "ab", "ä-", "b ", "€", "xa"}).Draw(t, "s"))}
	},
		expr: func(a []string) string { return "alle Indizes vom Subtext " + a[1] + " in " + a[0] }, model: func(a []V) (V, bool) {
			h, n := rs(a[0]), rs(a[1])
			var idx []int64
			for i := 0; i+len(n) <= len(h); i++ {
				if string(h[i:i+len(n)]) == string(n) {
					idx = append(idx, int64(i+1))
				}
			}
			return zl(idx), len(h) == len(n) || (len(idx) > 0 && idx[len(idx)-1] == int64(len(h)-len(n)+1))
		}},
	{name: "Texte.Anzahl_Text_nicht_überlappend", gen: func(t *rapid.T) []V {
		return []V{genText(t, "t", 0, 8), text(rapid.SampledFrom([]string{"a", "ab", "ä-", "b ", "€", "xa"}).Draw(t, "s"))}
	},
		expr: func(a []string) string { return "die Anzahl der nicht überlappenden Subtexte " + a[1] + " in " + a[0] }, model: func(a []V) (V, bool) {
			c := int64(strings.Count(a[0].S, a[1].S))
			return zahl(c), c > 0
		}},
	{name: "Texte.Spalte_Text", gen: func(t *rapid.T) []V {
		return []V{genText(t, "t", 1, 8), text(rapid.SampledFrom([]string{"ab", "ä-", "b ", "xa", "-"}).Draw(t, "s"))}
	},
		expr: func(a []string) string { return a[0] + " an " + a[1] + " gespalten" }, model: func(a []V) (V, bool) {
			p := strings.Split(a[0].S, a[1].S)
			return tl(p), len(p) > 1
		}},
	{name: "Texte.Vergleiche_Text(Vorzeichen)", gen: func(t *rapid.T) []V {
		a := genRunes(t, "a", 0, 5)
		b := genRunes(t, "b", 0, 5)
		if rapid.Bool().Draw(t, "common-prefix") {
			b = append(append([]rune{}, a...), b...)
			if rapid.Bool().Draw(t, "swap") {
				a, b = b, a
			}
		}
		return []V{text(string(a)), text(string(b))}
	}, expr: func(a []string) string { return "das Vorzeichen von (" + a[0] + " mit " + a[1] + " verglichen)" },
		model: func(a []V) (V, bool) {
			x, y := rs(a[0]), rs(a[1])
			for i := 0; i < len(x) && i < len(y); i++ {
				if x[i] != y[i] {
					if x[i] > y[i] {
						return zahl(1), false
					}
					return zahl(-1), false
				}
			}
			switch {
			case len(x) == len(y):
				return zahl(0), true
			case len(x) > len(y):
				return zahl(1), true
			}
			return zahl(-1), true
		}},
	{name: "Texte.Nter_Buchstabe", gen: func(t *rapid.T) []V {
		x := genText(t, "t", 1, 6)
		return []V{genIdx(t, "n", len(rs(x))), x}
	}, expr: func(a []string) string { return "der " + a[0] + ". Buchstabe von " + a[1] }, model: func(a []V) (V, bool) {
		return char(rs(a[1])[a[0].I-1]), a[0].I == 1 || int(a[0].I) == len(rs(a[1]))
	}},
	{name: "Texte.Erster_Buchstabe", gen: func(t *rapid.T) []V { return []V{genText(t, "t", 1, 5)} },
		expr: func(a []string) string { return "der erste Buchstabe von " + a[0] }, model: func(a []V) (V, bool) { return char(rs(a[0])[0]), len(rs(a[0])) == 1 }},
	{name: "Texte.Letzter_Buchstabe", gen: func(t *rapid.T) []V { return []V{genText(t, "t", 1, 5)} },
		expr: func(a []string) string { return "der letzte Buchstabe von " + a[0] }, model: func(a []V) (V, bool) { r := rs(a[0]); return char(r[len(r)-1]), len(r) == 1 || len(a[0].S) != len(r) }},
	{name: "Texte.Großschreiben_Wert", gen: func(t *rapid.T) []V { return []V{genText(t, "t", 0, 6)} },
		expr: func(a []string) string { return a[0] + " groß geschrieben" }, model: func(a []V) (V, bool) { return text(strings.ToUpper(a[0].S)), strings.Contains(a[0].S, "ä") }},
	{name: "Texte.Kleinschreiben_Wert", gen: func(t *rapid.T) []V { return []V{text(strings.ToUpper(genText(t, "t", 0, 6).S))} },
		expr: func(a []string) string { return a[0] + " klein geschrieben" }, model: func(a []V) (V, bool) { return text(strings.ToLower(a[0].S)), strings.Contains(a[0].S, "Ä") }},
	{name: "Texte.Beginnt_Mit_Buchstabe", gen: func(t *rapid.T) []V { return []V{genText(t, "t", 0, 5), genChar(t, "c")} },
		expr: func(a []string) string { return a[1] + " am Anfang von " + a[0] + " steht" }, model: func(a []V) (V, bool) { return boolean(strings.HasPrefix(a[0].S, a[1].S)), a[0].S == "" }},
	{name: "Texte.Endet_Mit_Buchstabe", gen: func(t *rapid.T) []V { return []V{genText(t, "t", 0, 5), genChar(t, "c")} },
		expr: func(a []string) string { return a[1] + " am Ende von " + a[0] + " steht" }, model: func(a []V) (V, bool) { return boolean(strings.HasSuffix(a[0].S, a[1].S)), a[0].S == "" }},
	{name: "Texte.Enthält_Buchstabe", gen: func(t *rapid.T) []V { return []V{genText(t, "t", 0, 6), genChar(t, "c")} },
		expr: func(a []string) string { return a[0] + " " + a[1] + " enthält" }, model: func(a []V) (V, bool) { return boolean(strings.Contains(a[0].S, a[1].S)), a[0].S == "" }},
	{name: "Listen.Einfügen_Bereich", stmt: true, gen: func(t *rapid.T) []V {
		l := genZL(t, "l", 1, 5)
		return []V{l, genIdx(t, "i", len(l.L)), genZL(t, "r", 0, 3)}
	}, expr: func(a []string) string {
		return "Setze die Elemente in " + a[2] + " an die Stelle " + a[1] + " von " + a[0]
	},
		model: func(a []V) (V, bool) {
			i := int(a[1].I)
			n := append(append(append([]int64{}, a[0].L[:i-1]...), a[2].L...), a[0].L[i-1:]...)
			return zl(n), i == 1 || i == len(a[0].L) || len(a[2].L) == 0
		}},
	{name: "Listen.Elementweise_Summe", gen: func(t *rapid.T) []V {
		l := genZL(t, "l", 0, 5)
		m := make([]int64, len(l.L))
		for i := range m {
			m[i] = int64(rapid.IntRange(-4, 4).Draw(t, "m"))
		}
		return []V{l, zl(m)}
	}, expr: func(a []string) string { return "jedes Element aus " + a[0] + " mit " + a[1] + " addiert" },
		model: func(a []V) (V, bool) {
			n := make([]int64, len(a[0].L))
			for i := range n {
				n[i] = a[0].L[i] + a[1].L[i]
			}
			return zl(n), len(n) == 0
		}},
	{name: "Listen.Elementweise_Produkt", gen: func(t *rapid.T) []V {
		l := genZL(t, "l", 0, 5)
		m := make([]int64, len(l.L))
		for i := range m {
			m[i] = int64(rapid.IntRange(-4, 4).Draw(t, "m"))
		}
		return []V{l, zl(m)}
	}, expr: func(a []string) string { return "jedes Element aus " + a[0] + " mit " + a[1] + " multipliziert" },
		model: func(a []V) (V, bool) {
			n := make([]int64, len(a[0].L))
			for i := range n {
				n[i] = a[0].L[i] * a[1].L[i]
			}
			return zl(n), len(n) == 0
		}},
	{name: "Listen.Aneinandergehängt_Buchstabe", gen: func(t *rapid.T) []V { return []V{bl(genRunes(t, "l", 0, 6))} },
		expr: func(a []string) string { return a[0] + " aneinandergehängt" }, model: func(a []V) (V, bool) { return text(strings.Join(a[0].T, "")), len(a[0].T) == 0 }},
	{name: "Mathe.Max3", gen: func(t *rapid.T) []V {
		return []V{zahl(int64(rapid.IntRange(-5, 5).Draw(t, "a"))), zahl(int64(rapid.IntRange(-5, 5).Draw(t, "b"))), zahl(int64(rapid.IntRange(-5, 5).Draw(t, "c")))}
	}, expr: func(a []string) string { return "die größere Zahl von " + a[0] + ", " + a[1] + " und " + a[2] }, model: func(a []V) (V, bool) { return zahl(max(a[0].I, a[1].I, a[2].I)), a[0].I == a[1].I || a[1].I == a[2].I }},
	{name: "Mathe.Min3", gen: func(t *rapid.T) []V {
		return []V{zahl(int64(rapid.IntRange(-5, 5).Draw(t, "a"))), zahl(int64(rapid.IntRange(-5, 5).Draw(t, "b"))), zahl(int64(rapid.IntRange(-5, 5).Draw(t, "c")))}
	}, expr: func(a []string) string { return "die kleinere Zahl von " + a[0] + ", " + a[1] + " und " + a[2] }, model: func(a []V) (V, bool) { return zahl(min(a[0].I, a[1].I, a[2].I)), a[0].I == a[1].I || a[1].I == a[2].I }},
	{name: "Mathe.Sign", gen: func(t *rapid.T) []V { return []V{zahl(int64(rapid.IntRange(-3, 3).Draw(t, "w")))} },
		expr: func(a []string) string { return "das Vorzeichen von " + a[0] }, model: func(a []V) (V, bool) {
			switch {
			case a[0].I > 0:
				return zahl(1), false
			case a[0].I < 0:
				return zahl(-1), false
			}
			return zahl(0), true
		}},
	{name: "Mathe.Ist_Teilbar", gen: func(t *rapid.T) []V {
		return []V{zahl(int64(rapid.IntRange(-20, 40).Draw(t, "a"))), zahl(int64(rapid.IntRange(1, 7).Draw(t, "b")))}
	},
		expr: func(a []string) string { return a[0] + " durch " + a[1] + " teilbar ist" }, model: func(a []V) (V, bool) { return boolean(a[0].I%a[1].I == 0), a[0].I <= 0 }},
}

func byName(n string) *fn {
	for i := range table {
		if table[i].name == n {
			return &table[i]
		}
	}
	return nil
}

// ---------------------------------------------------------------- program + judge

type Case struct {
	Calls []Call `json:"calls"`
	Level int    `json:"level"`
}

func program(calls []Call) (src, expect string) {
	var sb, ex strings.Builder
	sb.WriteString(prelude)
	for k, c := range calls {
		f := byName(c.Fn)
		var names []string
		for i, a := range c.Args {
			n := fmt.Sprintf("a%d_%d", k, i)
			names = append(names, n)
			fmt.Fprintf(&sb, "%s %s ist %s.\n", typeName[a.K], n, lit(a))
		}
		fmt.Fprintf(&sb, "Schreibe \"#%d\" auf eine Zeile.\n", k)
		fmt.Fprintf(&ex, "#%d\n", k)
		res, _ := f.model(c.Args)
		after := append([]V{}, c.Args...)
		if f.stmt {
			sb.WriteString(f.expr(names) + ".\n")
			after[0] = res
		} else {
			rn := fmt.Sprintf("r%d", k)
			fmt.Fprintf(&sb, "%s %s ist (%s).\n", typeName[res.K], rn, f.expr(names))
			sb.WriteString(show(res, rn))
			ex.WriteString(shown(res))
		}
		for i, a := range after { // arguments afterwards: unchanged, or exactly the documented effect
			sb.WriteString(show(a, names[i]))
			ex.WriteString(shown(a))
		}
	}
	sb.WriteString("Schreibe \"#ende\" auf eine Zeile.\n")
	ex.WriteString("#ende\n")
	return sb.String(), ex.String()
}

func judge(c Case) (*vf.Failure, string) {
	for _, cl := range c.Calls {
		if byName(cl.Fn) == nil {
			return vf.NewFailure("harness:unknown-function", cl.Fn, nil), "violation"
		}
	}
	src, expect := program(c.Calls)
	dir := ddp.TempDir("verif-c17-")
	defer os.RemoveAll(dir)
	os.WriteFile(filepath.Join(dir, "p.ddp"), []byte(src), 0o644)
	cr := ddp.Compile(dir, "p.ddp", filepath.Join(dir, "p"), "-O", fmt.Sprint(c.Level))
	if cr.TimedOut {
		return nil, "inconclusive-build-timeout"
	}
	if cr.Exit != 0 {
		return nil, "driver-does-not-build(generator): " + ddp.Trunc(cr.Stderr+cr.Stdout, 500)
	}
	r := ddp.Exec(dir, filepath.Join(dir, "p"), "")
	if r.TimedOut {
		return nil, "inconclusive-run-timeout"
	}
	if r.Stdout == expect && r.Exit == 0 {
		return nil, "ok"
	}
	// the first call whose section differs
	gs, es := strings.Split(r.Stdout, "#"), strings.Split(expect, "#")
	for k := 1; k < len(es); k++ {
		if k >= len(gs) || gs[k] != es[k] {
			idx := k - 1
			if idx >= len(c.Calls) {
				break
			}
			cl := c.Calls[idx]
			got := "<nothing>"
			if k < len(gs) {
				got = gs[k]
			}
			args, _ := json.Marshal(cl.Args)
			one := Case{Calls: []Call{cl}, Level: c.Level}
			return vf.NewFailure("C17:"+cl.Fn, fmt.Sprintf("-O %d: %s with arguments %s\nexpected (result, then every argument afterwards):\n%s\ngot:\n%s\n%s; stderr: %s", c.Level, cl.Fn, args, es[k], got, r.String(), ddp.Trunc(r.Stderr, 500)), one), "violation"
		}
	}
	return vf.NewFailure("C17:run", fmt.Sprintf("%s\nstderr: %s\n--- source\n%s", r.String(), ddp.Trunc(r.Stderr, 800), src), c), "violation"
}

func TestMain(m *testing.M) {
	var names []string
	for _, f := range table {
		names = append(names, f.name)
	}
	vf.Main(m, vf.Def{
		ID:    "C17",
		Level: "exploration",
		Rule: fmt.Sprintf("generated driver programs of 20-36 calls to %d modelled Duden functions (%s) with generated arguments inside the documented domain: lists of length 0..8 over small numbers and short texts, texts over {a b c ä € - space x} incl. the empty text, indices and counts at every boundary; value variants print result and arguments (which must be unchanged), Referenz variants print the changed argument; ", len(table), strings.Join(names, ", ")) +
			"oracle: Go reference models written from the doc comments (sequence operations on slices / []rune; ordered AND permutation for sorting; multiset for factor lists); built by the real kddp at a drawn -O level; " +
			"non-trivial = call with a boundary argument (empty, first/last index, multi-byte, overlapping or leading/trailing match, squared prime factor); distinct by (function, arguments)",
		Assumptions: []string{
			"only arguments inside the documented domain are generated (non-empty search texts, indices 1..length, same-length lists)",
			"functions whose comment does not state a checkable result are not modelled; the modelled set is listed in the rule",
		},
		Judge: func(raw json.RawMessage) *vf.Failure {
			var c Case
			if err := json.Unmarshal(raw, &c); err != nil {
				return vf.NewFailure("harness:bad-case", err.Error(), nil)
			}
			f, _ := judge(c)
			return f
		},
	})
}

func TestDudenFunctions(t *testing.T) {
	defer vf.AfterCheck(t)
	vf.Checks(160, 4000)
	rapid.Check(t, func(t *rapid.T) {
		n := rapid.IntRange(20, 36).Draw(t, "calls")
		c := Case{Level: rapid.SampledFrom([]int{0, 1, 2}).Draw(t, "level")}
		for len(c.Calls) < n {
			f := table[rapid.IntRange(0, len(table)-1).Draw(t, "fn")]
			args := f.gen(t)
			c.Calls = append(c.Calls, Call{Fn: f.name, Args: args})
			_, boundary := f.model(args)
			key, _ := json.Marshal(args)
			vf.Case(f.name+string(key), boundary, f.name)
		}
		f, outcome := judge(c)
		if vf.Report(t, f) {
			return
		}
		if outcome != "ok" {
			key := outcome
			if p := strings.Index(key, ":"); p > 0 {
				key = key[:p]
			}
			vf.Count(key)
			vf.Sample(key, map[string]any{"why": outcome})
			t.Logf("not judged: %s", outcome)
			return
		}
		vf.Sample("ok", c.Calls[:2])
	})
}
