// C02 — every program the frontend accepts is compiled completely.
package c02

import (
	"encoding/json"
	"fmt"
	"os"
	"path/filepath"
	"sort"
	"strings"
	"testing"

	"github.com/DDP-Projekt/Kompilierer/src/ast"
	"github.com/DDP-Projekt/Kompilierer/src/ddptypes"
	"pgregory.net/rapid"

	"verif/ddp"
	"verif/fe"
	"verif/vf"
)

const preamble = `Wir nennen die Kombination aus
	der Zahl x mit Standardwert 1,
	dem Text name mit Standardwert "n",
einen Punkt, und erstellen sie so:
	"ein Punkt"

Wir nennen eine Zahl auch eine Ganzzahl.
Wir nennen einen Text auch einen Worttext.
Wir nennen eine Zahlen Liste auch eine Reihe.
Wir definieren eine Nummer als eine Zahl.
Wir definieren einen Titel als einen Text.
Wir definieren eine Folge als eine Zahlen Liste.

Die Zahl z ist 7.
Die Zahl z2 ist 2.
Die Kommazahl k ist 2,5.
Die Kommazahl k2 ist 0,5.
Der Byte b ist 200.
Der Byte b2 ist 3.
Der Wahrheitswert w ist wahr.
Der Wahrheitswert w2 ist falsch.
Der Buchstabe c ist 'x'.
Der Buchstabe c2 ist 'ä'.
Der Text t ist "abä".
Der Text t2 ist "cd".
Die Zahlen Liste zl ist eine Liste, die aus 1, 2, 3 besteht.
Die Zahlen Liste zl2 ist eine Liste, die aus 4, 5 besteht.
Die Kommazahlen Liste kl ist eine Liste, die aus 1,5, 2,5 besteht.
Die Kommazahlen Liste kl2 ist eine leere Kommazahlen Liste.
Die Byte Liste bl ist eine Liste, die aus (1 als Byte), (2 als Byte) besteht.
Die Byte Liste bl2 ist eine leere Byte Liste.
Die Wahrheitswert Liste wl ist eine Liste, die aus wahr, falsch besteht.
Die Wahrheitswert Liste wl2 ist eine leere Wahrheitswert Liste.
Die Buchstaben Liste cl ist eine Liste, die aus 'a', 'b' besteht.
Die Buchstaben Liste cl2 ist eine leere Buchstaben Liste.
Die Text Liste tl ist eine Liste, die aus "a", "bc" besteht.
Die Text Liste tl2 ist eine leere Text Liste.
Der Punkt p ist ein Punkt.
Der Punkt p2 ist ein Punkt.
Die Punkt Liste pl ist eine Liste, die aus p, p2 besteht.
Die Punkt Liste pl2 ist eine leere Punkt Liste.
Die Variable v ist 5.
Die Variable v2 ist "text".
Die Variablen Liste vl ist eine leere Variablen Liste.
Die Variablen Liste vl2 ist eine leere Variablen Liste.
Die Ganzzahl az ist 3.
Die Ganzzahl az2 ist 4.
Der Worttext at ist "w".
Der Worttext at2 ist "v".
Die Reihe al ist eine Liste, die aus 1, 2 besteht.
Die Reihe al2 ist eine leere Zahlen Liste.
Die Nummer dz ist 9 als Nummer.
Die Nummer dz2 ist 8 als Nummer.
Der Titel dt ist "t" als Titel.
Der Titel dt2 ist "u" als Titel.
Die Folge dl ist (eine Liste, die aus 1, 2 besteht) als Folge.
Die Folge dl2 ist (eine leere Zahlen Liste) als Folge.
`

var classes = []string{"z", "k", "b", "w", "c", "t", "zl", "kl", "bl", "wl", "cl", "tl", "p", "pl", "v", "vl", "az", "at", "al", "dz", "dt", "dl"}

type form struct {
	Name  string
	Arity int
	Fmt   string
}

var castTargets = []string{"Zahl", "Kommazahl", "Byte", "Wahrheitswert", "Buchstabe", "Text", "Zahlen Liste", "Kommazahlen Liste", "Byte Liste", "Wahrheitswert Liste", "Buchstaben Liste", "Text Liste",
	"Punkt", "Punkt Liste", "Variable", "Variablen Liste", "Ganzzahl", "Worttext", "Reihe", "Nummer", "Titel", "Folge"}

var forms = func() []form {
	f := []form{
		{"Betrag", 1, "der Betrag von %[1]s"}, {"Länge", 1, "die Länge von %[1]s"}, {"unäres minus", 1, "-%[1]s"}, {"nicht", 1, "nicht %[1]s"}, {"logisch nicht", 1, "logisch nicht %[1]s"},
		{"und", 2, "%[1]s und %[2]s"}, {"oder", 2, "%[1]s oder %[2]s"}, {"entweder oder", 2, "entweder %[1]s, oder %[2]s"},
		{"verkettet mit", 2, "%[1]s verkettet mit %[2]s"}, {"plus", 2, "%[1]s plus %[2]s"}, {"minus", 2, "%[1]s minus %[2]s"}, {"mal", 2, "%[1]s mal %[2]s"}, {"durch", 2, "%[1]s durch %[2]s"},
		{"modulo", 2, "%[1]s modulo %[2]s"}, {"an der Stelle", 2, "%[1]s an der Stelle %[2]s"}, {"hoch", 2, "%[1]s hoch %[2]s"}, {"Logarithmus", 2, "der Logarithmus von %[1]s zur Basis %[2]s"},
		{"Wurzel", 2, "die %[2]s. Wurzel von %[1]s"},
		{"logisch und", 2, "%[1]s logisch und %[2]s"}, {"logisch oder", 2, "%[1]s logisch oder %[2]s"}, {"logisch kontra", 2, "%[1]s logisch kontra %[2]s"},
		{"links verschoben", 2, "%[1]s um %[2]s Bit nach Links verschoben"}, {"rechts verschoben", 2, "%[1]s um %[2]s Bit nach Rechts verschoben"},
		{"gleich", 2, "%[1]s gleich %[2]s ist"}, {"ungleich", 2, "%[1]s ungleich %[2]s ist"}, {"kleiner als", 2, "%[1]s kleiner als %[2]s ist"}, {"größer als", 2, "%[1]s größer als %[2]s ist"},
		{"kleiner als, oder", 2, "%[1]s kleiner als, oder %[2]s ist"}, {"größer als, oder", 2, "%[1]s größer als, oder %[2]s ist"},
		{"Feld x von", 1, "x von %[1]s"}, {"Feld name von", 1, "name von %[1]s"},
		{"bis zum", 2, "%[1]s bis zum %[2]s. Element"}, {"ab dem", 2, "%[1]s ab dem %[2]s. Element"},
		{"im Bereich", 3, "%[1]s im Bereich von %[2]s bis %[3]s"}, {"zwischen", 3, "%[1]s zwischen %[2]s und %[3]s ist"}, {"falls", 3, "%[1]s, falls %[2]s, ansonsten %[3]s"},
	}
	for _, t := range castTargets {
		f = append(f, form{"als " + t, 1, "%[1]s als " + t})
	}
	for _, t := range []string{"eine Zahl", "ein Text", "ein Punkt", "eine Zahlen Liste", "eine Nummer", "keine Zahl", "kein Byte", "eine Variablen Liste"} {
		f = append(f, form{"Typprüfung " + t, 1, "%[1]s " + t + " ist"})
	}
	for _, t := range castTargets {
		dat := "einer"
		if m := map[string]bool{"Byte": true, "Wahrheitswert": true, "Buchstabe": true, "Text": true, "Punkt": true, "Worttext": true, "Titel": true}; m[t] {
			dat = "einem"
		}
		tt := t
		if t == "Buchstabe" {
			tt = "Buchstaben"
		}
		f = append(f, form{"Standardwert " + t, 0, "der Standardwert von " + dat + " " + tt}, form{"Größe " + t, 0, "die Größe von " + dat + " " + tt})
	}
	return f
}()

type Cell struct {
	Form     string   `json:"form"`
	Operands []string `json:"operands"` // class ids
	Expr     string   `json:"expr"`
	Context  string   `json:"context"`
	Program  string   `json:"program,omitempty"`
}

func (c Cell) key() string { return c.Form + "(" + strings.Join(c.Operands, ",") + ")" }

func exprOf(f form, ops []string) string {
	vars := make([]any, len(ops))
	used := map[string]int{}
	for i, o := range ops {
		used[o]++
		if used[o] > 1 {
			vars[i] = o + "2"
		} else {
			vars[i] = o
		}
	}
	return fmt.Sprintf(f.Fmt, vars...)
}

// enumerate all (form, operand classes)
func allCells() []Cell {
	var cells []Cell
	for _, f := range forms {
		switch f.Arity {
		case 0:
			cells = append(cells, Cell{Form: f.Name, Expr: exprOf(f, nil)})
		case 1:
			for _, a := range classes {
				cells = append(cells, Cell{Form: f.Name, Operands: []string{a}, Expr: exprOf(f, []string{a})})
			}
		case 2:
			for _, a := range classes {
				for _, b := range classes {
					cells = append(cells, Cell{Form: f.Name, Operands: []string{a, b}, Expr: exprOf(f, []string{a, b})})
				}
			}
		case 3:
			// the ternaries: restrict the index/bound/condition positions to the classes that can be admissible there
			mids := []string{"z", "b", "k", "w", "az", "dz", "t"}
			for _, a := range classes {
				for _, b := range mids {
					for _, c := range mids {
						if f.Name == "falls" {
							// lhs/rhs any pair, condition in mids
							continue
						}
						cells = append(cells, Cell{Form: f.Name, Operands: []string{a, b, c}, Expr: exprOf(f, []string{a, b, c})})
					}
				}
			}
			if f.Name == "falls" {
				for _, a := range classes {
					for _, c := range classes {
						for _, b := range []string{"w", "z", "b"} {
							cells = append(cells, Cell{Form: f.Name, Operands: []string{a, b, c}, Expr: exprOf(f, []string{a, b, c})})
						}
					}
				}
			}
		}
	}
	return cells
}

// stage 1: does the frontend accept the tuple, and which type does the checker assign?
func stage1(c Cell) (accepted bool, typ ddptypes.Type) {
	src := preamble + "Die Variable res ist (" + c.Expr + ").\n"
	res := fe.ParseSource("c02.ddp", []byte(src))
	if !res.Accepted() || res.Module == nil {
		return false, nil
	}
	stmts := res.Module.Ast.Statements
	if ds, ok := stmts[len(stmts)-1].(*ast.DeclStmt); ok {
		if vd, ok := ds.Decl.(*ast.VarDecl); ok && vd.Name() == "res" {
			return true, vd.InitType
		}
	}
	return false, nil
}

type tinfo struct {
	src, art, dat, akk string
	numeric, boolean, list, void, zahlOrByte bool
}

func info(t ddptypes.Type) tinfo {
	ti := tinfo{src: t.String()}
	switch t.Gender() {
	case ddptypes.FEMININ:
		ti.art, ti.dat, ti.akk = "Die", "einer", "eine"
	case ddptypes.NEUTRUM:
		ti.art, ti.dat, ti.akk = "Das", "einem", "ein"
	default:
		ti.art, ti.dat, ti.akk = "Der", "einem", "einen"
	}
	ti.numeric = ddptypes.IsNumeric(t)
	ti.boolean = ddptypes.Equal(t, ddptypes.WAHRHEITSWERT)
	ti.list = ddptypes.IsList(t)
	ti.void = ddptypes.IsVoid(t)
	ti.zahlOrByte = ddptypes.Equal(t, ddptypes.ZAHL) || ddptypes.Equal(t, ddptypes.BYTE)
	return ti
}

func (ti tinfo) fieldArt() string {
	if ti.art == "Die" {
		return "der"
	}
	return "dem"
}
func (ti tinfo) retSrc() string {
	if ti.src == "Buchstabe" {
		return "Buchstaben"
	}
	return ti.src
}

// contexts admissible for a result type
func contextsFor(ti tinfo) []string {
	if ti.void {
		return nil
	}
	cs := []string{"init-Variable", "init-own", "assign", "argument", "return", "field", "statement"}
	if !ti.list {
		cs = append(cs, "list-element")
	}
	if ti.numeric {
		cs = append(cs, "init-Zahl", "init-Kommazahl", "init-Byte", "assign-Zahl", "assign-Byte", "assign-Kommazahl")
	}
	if ti.boolean {
		cs = append(cs, "condition-wenn", "condition-solange", "operand-und", "falls-condition")
	}
	if ti.numeric {
		cs = append(cs, "loop-bound", "loop-step", "loop-bound-Kommazahl-counter", "loop-step-Kommazahl-counter", "loop-bound-Byte-counter", "loop-start")
	}
	if ti.zahlOrByte {
		cs = append(cs, "repeat-count", "index", "list-count", "slice-bound")
	}
	return cs
}

func program(c Cell, ti tinfo) string {
	E := "(" + c.Expr + ")"
	var sb strings.Builder
	sb.WriteString(preamble)
	switch c.Context {
	case "init-Variable":
		sb.WriteString("Die Variable res ist " + E + ".\n")
	case "init-own":
		fmt.Fprintf(&sb, "%s %s res ist %s.\n", ti.art, ti.retSrc2(), E)
	case "assign":
		fmt.Fprintf(&sb, "%s %s res ist der Standardwert von %s %s.\nSpeichere %s in res.\n", ti.art, ti.retSrc2(), ti.dat, ti.retSrc(), E)
	case "init-Zahl":
		sb.WriteString("Die Zahl res ist " + E + ".\n")
	case "init-Kommazahl":
		sb.WriteString("Die Kommazahl res ist " + E + ".\n")
	case "init-Byte":
		sb.WriteString("Der Byte res ist " + E + ".\n")
	case "assign-Zahl":
		sb.WriteString("Die Zahl res ist 0.\nSpeichere " + E + " in res.\n")
	case "assign-Byte":
		sb.WriteString("Der Byte res ist 0.\nSpeichere " + E + " in res.\n")
	case "assign-Kommazahl":
		sb.WriteString("Die Kommazahl res ist 0,0.\nSpeichere " + E + " in res.\n")
	case "argument":
		fmt.Fprintf(&sb, "Die Funktion nimm mit dem Parameter x vom Typ %s, gibt nichts zurück, macht:\n\tVerlasse die Funktion.\nUnd kann so benutzt werden:\n\t\"nimm <x>\"\n\nnimm %s.\n", ti.src, E)
	case "return":
		fmt.Fprintf(&sb, "Die Funktion liefere gibt %s %s zurück, macht:\n\tGib %s zurück.\nUnd kann so benutzt werden:\n\t\"liefere etwas\"\n\nDie Variable res ist (liefere etwas).\n", ti.akk, ti.retSrc(), E)
	case "field":
		fmt.Fprintf(&sb, "Wir nennen die Kombination aus\n\t%s %s f,\neinen Halter, und erstellen sie so:\n\t\"ein Halter mit <f>\"\n\nDer Halter h ist ein Halter mit %s.\n", ti.fieldArt(), ti.retSrc(), E)
	case "statement":
		sb.WriteString(E + ".\n")
	case "list-element":
		sb.WriteString("Die Variable res ist (eine Liste, die aus " + E + ", " + E + " besteht).\n")
	case "condition-wenn":
		sb.WriteString("Wenn " + E + ", dann:\n\tDie Zahl q ist 1.\nSonst:\n\tDie Zahl q ist 2.\n")
	case "condition-solange":
		sb.WriteString("Solange " + E + ", mache:\n\tVerlasse die Schleife.\n")
	case "operand-und":
		sb.WriteString("Der Wahrheitswert res ist " + E + " und w.\n")
	case "falls-condition":
		sb.WriteString("Die Zahl res ist (1, falls " + E + ", ansonsten 2).\n")
	case "loop-bound":
		sb.WriteString("Für jede Zahl i von 1 bis " + E + ", mache:\n\tVerlasse die Schleife.\n")
	case "loop-step":
		sb.WriteString("Für jede Zahl i von 1 bis 3 mit Schrittgröße " + E + ", mache:\n\tVerlasse die Schleife.\n")
	case "loop-bound-Kommazahl-counter":
		sb.WriteString("Für jede Kommazahl i von 1,0 bis " + E + ", mache:\n\tVerlasse die Schleife.\n")
	case "loop-step-Kommazahl-counter":
		sb.WriteString("Für jede Kommazahl i von 1,0 bis 3,0 mit Schrittgröße " + E + ", mache:\n\tVerlasse die Schleife.\n")
	case "loop-bound-Byte-counter":
		sb.WriteString("Für jeden Byte i von 1 bis " + E + ", mache:\n\tVerlasse die Schleife.\n")
	case "loop-start":
		sb.WriteString("Für jede Zahl i von " + E + " bis 3, mache:\n\tVerlasse die Schleife.\n")
	case "repeat-count":
		sb.WriteString("Wiederhole:\n\tVerlasse die Schleife.\n" + E + " Mal.\n")
	case "index":
		sb.WriteString("Die Variable res ist (zl an der Stelle " + E + ").\nSpeichere 1 in zl an der Stelle " + E + ".\n")
	case "list-count":
		sb.WriteString("Die Zahlen Liste res ist " + E + " Mal 0.\n")
	case "slice-bound":
		sb.WriteString("Die Variable res ist (t im Bereich von 1 bis " + E + ").\n")
	}
	return sb.String()
}

func (ti tinfo) retSrc2() string { return ti.src }

// extra programs: accepted declarations that are not operator applications
var extras = map[string]string{
	"nested-list-type(list of alias-of-list)": "Wir nennen eine Zahlen Liste auch eine Reihe.\nDie Reihe Liste all ist eine leere Reihe Liste.\n",
	"nested-list-type(parameter)":             "Wir nennen eine Zahlen Liste auch eine Reihe.\nDie Funktion f mit dem Parameter a vom Typ Reihe Liste, gibt nichts zurück, macht:\n\tVerlasse die Funktion.\nUnd kann so benutzt werden:\n\t\"f <a>\"\n",
	"list-of-definition":                      "Wir definieren eine Nummer als eine Zahl.\nDie Nummer Liste nl ist eine leere Nummer Liste.\nDie Nummer n ist 1 als Nummer.\nSpeichere nl verkettet mit n in nl.\nDie Variable r ist (nl an der Stelle 1).\n",
	"list-of-alias":                           "Wir nennen eine Zahl auch eine Ganzzahl.\nDie Ganzzahl Liste gl ist eine Liste, die aus 1, 2 besteht.\nDie Zahl r ist (gl an der Stelle 2).\n",
	"definition-of-Kombination":               "Wir nennen die Kombination aus\n\tder Zahl x mit Standardwert 1,\neinen Punkt, und erstellen sie so:\n\t\"ein Punkt\"\nWir definieren einen Ort als einen Punkt.\nDer Ort o ist (ein Punkt) als Ort.\nDie Zahl r ist (x von (o als Punkt)).\n",
	"Kombination-with-list-field":             "Wir nennen die Kombination aus\n\tder Text Liste tl,\n\tder Variable v mit Standardwert 1,\neinen Halter, und erstellen sie so:\n\t\"ein Halter\"\nDer Halter h ist ein Halter.\nSpeichere \"a\" als Text Liste in tl von h.\n",
}

func judgeExtra(name string) (*vf.Failure, string) {
	c := Cell{Form: name, Context: "extra", Program: extras[name]}
	return judgeProgram(c, "C02:"+name, name)
}

// judge one (cell, context): frontend verdict in-process, then the real CLI.
func judge(c Cell) (*vf.Failure, string) {
	ok, typ := stage1(c)
	if !ok {
		return nil, "rejected-by-frontend"
	}
	ti := info(typ)
	prog := program(c, ti)
	c.Program = prog
	return judgeProgram(c, fmt.Sprintf("C02:%s(%s)", c.Form, strings.Join(c.Operands, ",")), ti.src)
}

func judgeProgram(c Cell, sigBase, tsrc string) (*vf.Failure, string) {
	prog := c.Program
	ti := tinfo{src: tsrc}
	res := fe.ParseSource("c02.ddp", []byte(prog))
	if !res.Accepted() {
		return nil, "context-rejected-by-frontend"
	}
	dir := ddp.TempDir("verif-c02-")
	defer os.RemoveAll(dir)
	os.WriteFile(filepath.Join(dir, "p.ddp"), []byte(prog), 0o644)
	cr := ddp.Compile(dir, "p.ddp", "p")
	out := cr.Stdout + cr.Stderr
	if cr.TimedOut {
		return nil, "inconclusive-timeout"
	}
	if cr.Exit != 0 {
		cls := "compile-fails"
		switch {
		case strings.Contains(out, "ddptypes.Type is ddptypes.ListType, not *ddptypes.StructType"):
			// one root cause for every cell: the code generator has no IR type for a list whose elements are lists
			sigBase = "C02:nested-list-type"
		case strings.Contains(out, "Unerwarteter Fehler"), strings.Contains(out, "CompilerError"):
			cls = "internal-error"
		case strings.Contains(out, "llvm ir"), strings.Contains(out, "LLVM"):
			cls = "llvm-rejects-ir"
		case strings.Contains(out, "Fehler beim Linken"):
			cls = "link-fails"
		}
		return vf.NewFailure(sigBase, fmt.Sprintf("%s in context %s, checker type %s: frontend accepts, but kddp kompiliere fails (%s):\n%s\n--- expression: %s", c.key(), c.Context, ti.src, cls, ddp.Trunc(out, 1200), c.Expr), c), "violation"
	}
	rr := ddp.Exec(dir, filepath.Join(dir, "p"), "")
	if rr.TimedOut {
		return nil, "inconclusive-run-timeout"
	}
	if rr.Signal != "" || ddp.IsSegfault(rr) || (rr.Exit != 0 && !ddp.IsLaufzeitfehler(rr)) {
		return vf.NewFailure(sigBase, fmt.Sprintf("%s in context %s: the executable ends with %s (not exit 0, not a Laufzeitfehler)\nstderr: %s\n--- expression: %s", c.key(), c.Context, rr.String(), ddp.Trunc(rr.Stderr, 600), c.Expr), c), "violation"
	}
	if rr.Exit == 1 {
		return nil, "ok-laufzeitfehler"
	}
	return nil, "ok"
}

func TestMain(m *testing.M) {
	vf.Main(m, vf.Def{
		ID:    "C02",
		Level: "exploration",
		Rule: "enumeration of the finite table {5 unary, 26 binary (+Wurzel spelling), 3 ternary operators, cast to 23 target types, 8 type checks, Standardwert/Größe of 23 types} x operand type classes {Zahl, Kommazahl, Byte, Wahrheitswert, Buchstabe, Text, a list of each, Kombination, Kombination-Liste, Variable, Variablen Liste, alias of Zahl/Text/list, definition of Zahl/Text/list, list of alias-of-list}, operands are variables; " +
			"stage 1 parses every tuple in a neutral position and reads the type the checker assigned; stage 2 places every ACCEPTED tuple in the value contexts its type admits (initialiser of its own type / Variable / each numeric type, assignment, value argument, return value, Kombination field, list element, condition, loop bound/step/count, index, list count, slice bound, discarded statement) and runs kddp kompiliere + gcc link + the executable; " +
			"oracle: accepted by the frontend => kddp exits 0 (no internal error, LLVM accepts the IR, link succeeds) and the program ends with exit 0 or a Laufzeitfehler; non-trivial = frontend-accepted (tuple, context); distinct by (tuple, context). quick: every accepted tuple in one seed-chosen context; thorough: every context",
		Assumptions: []string{"cells the frontend rejects are counted, not judged (C04/C14)", "a compile or run time-out is inconclusive, never a violation"},
		Judge: func(raw json.RawMessage) *vf.Failure {
			var c Cell
			if err := json.Unmarshal(raw, &c); err != nil {
				return vf.NewFailure("harness:bad-case", err.Error(), nil)
			}
			if c.Context == "extra" {
				f, _ := judgeExtra(c.Form)
				return f
			}
			f, _ := judge(c)
			return f
		},
	})
}

func TestSweep(t *testing.T) {
	defer vf.AfterCheck(t)
	cells := allCells()
	k, n := vf.Shard()
	// stage 1 over all tuples (cheap, in-process), sharded
	type acc struct {
		c  Cell
		ti tinfo
	}
	var accepted []acc
	total := 0
	for i, c := range cells {
		if i%n != k {
			continue
		}
		total++
		ok, typ := stage1(c)
		if !ok {
			vf.Count("stage1:rejected")
			continue
		}
		vf.Count("stage1:accepted")
		accepted = append(accepted, acc{c, info(typ)})
	}
	vf.SetExtra("tuples_enumerated_all_shards", len(cells))
	perm := rapidPerm(len(accepted), vf.BaseSeed()*7919+uint64(k))
	seen := map[string]bool{}
	for _, idx := range perm {
		a := accepted[idx]
		ctxs := contextsFor(a.ti)
		if len(ctxs) == 0 {
			vf.Count("stage2:void-result-skipped")
			continue
		}
		if !vf.Thorough() {
			// one context per tuple, chosen by the seed
			h := int((vf.BaseSeed()*2654435761 + uint64(idx)*40503 + uint64(len(a.c.Expr))) % uint64(len(ctxs)))
			ctxs = ctxs[h : h+1]
		}
		for _, cx := range ctxs {
			c := a.c
			c.Context = cx
			f, outcome := judge(c)
			vf.Count("outcome:" + outcome)
			if f != nil {
				if seen[f.Signature] {
					vf.Count("repeat-of-reported-signature")
					continue
				}
				seen[f.Signature] = true
				if !report(t, f) {
					continue
				}
				continue
			}
			nt := strings.HasPrefix(outcome, "ok")
			vf.Case(c.key()+"@"+cx, nt, "context:"+cx)
			if nt {
				vf.Sample(cx, map[string]string{"tuple": c.key(), "context": cx, "expr": c.Expr, "checker_type": a.ti.src})
			}
		}
	}
	if k == 0 {
		names := make([]string, 0, len(extras))
		for n := range extras {
			names = append(names, n)
		}
		sort.Strings(names)
		for _, n := range names {
			f, outcome := judgeExtra(n)
			vf.Count("outcome:" + outcome)
			if f != nil {
				report(t, f)
				continue
			}
			vf.Case("extra:"+n, strings.HasPrefix(outcome, "ok"), "context:extra")
		}
	}
	vf.SetExhaustive(vf.Thorough())
	if len(pending) > 0 {
		t.Logf("%d violation(s) recorded; first: %s", len(pending), pending[0].Detail)
	}
}

// all violations of a sweep are collected (a sweep must not stop at the first failing cell)
var pending []*vf.Failure

func report(t *testing.T, f *vf.Failure) bool {
	if vf.IsKnown(f.Signature) {
		vf.KnownHit(f)
		return true
	}
	pending = append(pending, f)
	vf.AddFailure(f)
	return false
}

func rapidPerm(n int, seed uint64) []int {
	p := make([]int, n)
	for i := range p {
		p[i] = i
	}
	x := seed | 1
	for i := n - 1; i > 0; i-- {
		x ^= x << 13
		x ^= x >> 7
		x ^= x << 17
		j := int(x % uint64(i+1))
		p[i], p[j] = p[j], p[i]
	}
	return p
}

var _ = rapid.Check
var _ = sort.Strings
