// C15: a generic call behaves like its monomorphic specialisation.
//
// Differential: every generated project exists twice - G uses generic functions / a generic Kombination,
// S is the same text with the type parameters replaced by the concrete types of each used instantiation
// (one specialised copy per type tuple, same aliases). Both are built by the real kddp and must print the same.
// Negative cases: a call that binds one type parameter to two different types, and an assignment between two
// different instantiations of the generic Kombination, must be rejected.
package c15

import (
	"encoding/json"
	"fmt"
	"os"
	"path/filepath"
	"sort"
	"strings"
	"testing"

	"pgregory.net/rapid"
	"verif/ddp"
	"verif/fe"
	"verif/vf"
)

type Case struct {
	Generic      map[string]string `json:"generic,omitempty"`
	Special      map[string]string `json:"specialised,omitempty"`
	Level        int               `json:"level"`
	ExpectReject bool              `json:"expect_reject,omitempty"`
	Fault        string            `json:"fault,omitempty"`
	Desc         []string          `json:"desc,omitempty"`
}

// ---------------------------------------------------------------- concrete types

type ctype struct {
	name    string // Zahl
	list    string // Zahlen Liste
	ref     string // Zahlen Referenz
	art     string // Die / Der
	each    string // Für jede Zahl
	ret     string // eine Zahl
	vals    []string
	ident   string // for names of specialised copies
	numeric bool
}

var types = []ctype{
	{name: "Zahl", list: "Zahlen Liste", ref: "Zahlen Referenz", art: "Die", each: "Für jede Zahl", ret: "eine Zahl", vals: []string{"1", "2", "3", "40"}, ident: "Zahl", numeric: true},
	{name: "Kommazahl", list: "Kommazahlen Liste", ref: "Kommazahlen Referenz", art: "Die", each: "Für jede Kommazahl", ret: "eine Kommazahl", vals: []string{"1,5", "2,25", "0,5", "8,0"}, ident: "Komma", numeric: true},
	{name: "Text", list: "Text Liste", ref: "Text Referenz", art: "Der", each: "Für jeden Text", ret: "einen Text", vals: []string{"\"a\"", "\"bä\"", "\"\"", "\"xyz\""}, ident: "Text"},
	{name: "Buchstabe", list: "Buchstaben Liste", ref: "Buchstaben Referenz", art: "Der", each: "Für jeden Buchstaben", ret: "einen Buchstaben", vals: []string{"'x'", "'ß'", "'€'", "'q'"}, ident: "Buch"},
	{name: "Wahrheitswert", list: "Wahrheitswert Liste", ref: "Wahrheitswert Referenz", art: "Der", each: "Für jeden Wahrheitswert", ret: "einen Wahrheitswert", vals: []string{"wahr", "falsch", "wahr", "falsch"}, ident: "Bool"},
	{name: "Hausnummer", list: "Hausnummer Liste", ref: "Hausnummer Referenz", art: "Die", each: "Für jede Hausnummer", ret: "eine Hausnummer", vals: []string{"(7 als Hausnummer)", "(8 als Hausnummer)", "(1 als Hausnummer)", "(99 als Hausnummer)"}, ident: "Haus"},
	{name: "Punkt", list: "Punkt Liste", ref: "Punkt Referenz", art: "Der", each: "Für jeden Punkt", ret: "einen Punkt", vals: []string{"(ein Punkt mit x 3)", "(ein Punkt mit x 4)", "(ein Punkt mit x 0)", "(ein Punkt mit x 77)"}, ident: "Punkt"},
}

// renderer of a type parameter: generic spelling or the concrete type
type ty struct {
	generic bool
	letter  string // T / R
	c       ctype
}

func (t ty) Name() string {
	if t.generic {
		return t.letter
	}
	return t.c.name
}
func (t ty) Ref() string {
	if t.generic {
		return t.letter + " Referenz"
	}
	return t.c.ref
}
func (t ty) List() string {
	if t.generic {
		return t.letter + " Liste"
	}
	return t.c.list
}
func (t ty) ListRef() string { return t.List() + "n Referenz" }
func (t ty) Decl(n string) string {
	if t.generic {
		return "Das " + t.letter + " " + n
	}
	return t.c.art + " " + t.c.name + " " + n
}
func (t ty) DeclList(n string) string { return "Die " + t.List() + " " + n }
func (t ty) Each(n string) string {
	if t.generic {
		return "Für jedes " + t.letter + " " + n
	}
	return t.c.each + " " + n
}
func (t ty) Ret() string {
	if t.generic {
		return "ein " + t.letter
	}
	return t.c.ret
}
func (t ty) RetList() string { return "eine " + t.List() }
func (t ty) Empty() string   { return "eine leere " + t.List() }
func (t ty) Paar() string {
	if t.generic {
		return t.letter + "-Paar"
	}
	return "Paar" + t.c.ident
}

// ---------------------------------------------------------------- templates

type template struct {
	name     string
	nparams  int // type parameters
	numeric  bool
	usesPaar bool
	// decl renders the function for the given type renderers; suffix is appended to the function name
	decl func(pub, suffix string, t, r ty) string
	// use renders statements of main that call it with the concrete types
	use func(k int, t, r ctype, paar func(ctype) string) string
}

func fn(pub, name, suffix, params, ret, body, alias string) string {
	return fmt.Sprintf("Die %sFunktion %s%s %s, gibt %s zurück, macht:\n%sUnd kann so benutzt werden:\n\t\"%s\"\n\n", pub, name, suffix, params, ret, body, alias)
}

var templates = []template{
	{name: "tausche", nparams: 1,
		decl: func(pub, s string, t, r ty) string {
			return fn(pub, "tausche", s, "mit den Parametern a und b vom Typ "+t.Ref()+" und "+t.Ref(), "nichts",
				"\t"+t.Decl("temp")+" ist a.\n\tSpeichere b in a.\n\tSpeichere temp in b.\n", "tausche <a> und <b>")
		},
		use: func(k int, t, r ctype, _ func(ctype) string) string {
			return fmt.Sprintf("%s ta%d ist %s.\n%s tb%d ist %s.\ntausche ta%d und tb%d.\nSchreibe ta%d auf eine Zeile.\nSchreibe tb%d auf eine Zeile.\n", t.art+" "+t.name, k, t.vals[0], t.art+" "+t.name, k, t.vals[1], k, k, k, k)
		}},
	{name: "erstes", nparams: 1,
		decl: func(pub, s string, t, r ty) string {
			return fn(pub, "erstes", s, "mit dem Parameter l vom Typ "+t.List(), t.Ret(), "\tGib l an der Stelle 1 zurück.\n", "das erste aus <l>")
		},
		use: func(k int, t, r ctype, _ func(ctype) string) string {
			return fmt.Sprintf("Die %s el%d ist eine Liste, die aus %s, %s besteht.\nSchreibe (das erste aus el%d) auf eine Zeile.\n", t.list, k, t.vals[2], t.vals[0], k)
		}},
	{name: "haenge_an", nparams: 1,
		decl: func(pub, s string, t, r ty) string {
			return fn(pub, "haenge_an", s, "mit den Parametern l und x vom Typ "+t.List()+" und "+t.Name(), t.RetList(), "\tGib l verkettet mit x zurück.\n", "<l> erweitert um <x>")
		},
		use: func(k int, t, r ctype, _ func(ctype) string) string {
			return fmt.Sprintf("Die %s al%d ist eine Liste, die aus %s, %s besteht.\nDie %s bl%d ist al%d erweitert um %s.\nSchreibe (die Länge von bl%d) auf eine Zeile.\nSchreibe (bl%d an der Stelle 3) auf eine Zeile.\nSchreibe (die Länge von al%d) auf eine Zeile.\n", t.list, k, t.vals[0], t.vals[1], t.list, k, k, t.vals[3], k, k, k)
		}},
	{name: "stelle_von", nparams: 1,
		decl: func(pub, s string, t, r ty) string {
			return fn(pub, "stelle_von", s, "mit den Parametern l und x vom Typ "+t.List()+" und "+t.Name(), "eine Zahl",
				"\tDie Zahl i ist 0.\n\t"+t.Each("e")+" in l, mache:\n\t\tErhöhe i um 1.\n\t\tWenn e gleich x ist, gib i zurück.\n\tGib -1 zurück.\n", "die Stelle von <x> in <l>")
		},
		use: func(k int, t, r ctype, _ func(ctype) string) string {
			return fmt.Sprintf("Die %s sl%d ist eine Liste, die aus %s, %s, %s besteht.\nSchreibe (die Stelle von %s in sl%d) auf eine Zeile.\nSchreibe (die Stelle von %s in sl%d) auf eine Zeile.\n", t.list, k, t.vals[0], t.vals[1], t.vals[3], t.vals[3], k, t.vals[2], k)
		}},
	{name: "waehle", nparams: 1,
		decl: func(pub, s string, t, r ty) string {
			return fn(pub, "waehle", s, "mit den Parametern b, x und y vom Typ Wahrheitswert, "+t.Name()+" und "+t.Name(), t.Ret(), "\tWenn b, gib x zurück.\n\tGib y zurück.\n", "die Wahl aus <x> und <y> nach <b>")
		},
		use: func(k int, t, r ctype, _ func(ctype) string) string {
			return fmt.Sprintf("Schreibe (die Wahl aus %s und %s nach wahr) auf eine Zeile.\nSchreibe (die Wahl aus %s und %s nach falsch) auf eine Zeile.\n", t.vals[0], t.vals[1], t.vals[0], t.vals[1])
		}},
	{name: "umgedreht", nparams: 1,
		decl: func(pub, s string, t, r ty) string {
			return fn(pub, "umgedreht", s, "mit dem Parameter l vom Typ "+t.List(), t.RetList(),
				"\t"+t.DeclList("r")+" ist "+t.Empty()+".\n\t"+t.Each("e")+" in l, mache:\n\t\tSpeichere e verkettet mit r in r.\n\tGib r zurück.\n", "<l> umgedreht")
		},
		use: func(k int, t, r ctype, _ func(ctype) string) string {
			return fmt.Sprintf("Die %s ul%d ist eine Liste, die aus %s, %s, %s besteht.\nDie %s vl%d ist ul%d umgedreht.\nSchreibe (vl%d an der Stelle 1) auf eine Zeile.\nSchreibe (vl%d an der Stelle 3) auf eine Zeile.\n", t.list, k, t.vals[0], t.vals[1], t.vals[3], t.list, k, k, k, k)
		}},
	{name: "erstes_oder", nparams: 1, // a generic function calling another generic function
		decl: func(pub, s string, t, r ty) string {
			return fn(pub, "erstes_oder", s, "mit den Parametern l und d vom Typ "+t.List()+" und "+t.Name(), t.Ret(),
				"\tWenn die Länge von l gleich 0 ist, gib d zurück.\n\tGib (die Wahl aus (l an der Stelle 1) und d nach wahr) zurück.\n", "das erste aus <l> oder <d>")
		},
		use: func(k int, t, r ctype, _ func(ctype) string) string {
			return fmt.Sprintf("Die %s ol%d ist eine leere %s.\nSchreibe (das erste aus ol%d oder %s) auf eine Zeile.\nSpeichere ol%d verkettet mit %s in ol%d.\nSchreibe (das erste aus ol%d oder %s) auf eine Zeile.\n", t.list, k, t.list, k, t.vals[1], k, t.vals[3], k, k, t.vals[1])
		}},
	{name: "wiederholt", nparams: 1, // recursion inside a generic function
		decl: func(pub, s string, t, r ty) string {
			return fn(pub, "wiederholt", s, "mit den Parametern x und n vom Typ "+t.Name()+" und Zahl", t.RetList(),
				"\tWenn n kleiner als, oder 0 ist, gib "+t.Empty()+" zurück.\n\tGib (x "+"vervielfacht um (n minus 1)) verkettet mit x zurück.\n", "<x> vervielfacht um <n>")
		},
		use: func(k int, t, r ctype, _ func(ctype) string) string {
			return fmt.Sprintf("Die %s wl%d ist %s vervielfacht um 3.\nSchreibe (die Länge von wl%d) auf eine Zeile.\nSchreibe (wl%d an der Stelle 2) auf eine Zeile.\n", t.list, k, t.vals[1], k, k)
		}},
	{name: "zeige_beide", nparams: 2, // two type parameters, output inside the generic body
		decl: func(pub, s string, t, r ty) string {
			return fn(pub, "zeige_beide", s, "mit den Parametern a und b vom Typ "+t.Name()+" und "+r.Name(), "nichts",
				"\tSchreibe a auf eine Zeile.\n\tSchreibe b auf eine Zeile.\n", "zeige <a> und <b>")
		},
		use: func(k int, t, r ctype, _ func(ctype) string) string {
			return fmt.Sprintf("zeige %s und %s.\n", t.vals[0], r.vals[1])
		}},
	{name: "zweites_von", nparams: 2,
		decl: func(pub, s string, t, r ty) string {
			return fn(pub, "zweites_von", s, "mit den Parametern a und b vom Typ "+t.Name()+" und "+r.List(), r.Ret(),
				"\t"+t.Decl("kopie")+" ist a.\n\tSchreibe kopie auf eine Zeile.\n\tGib b an der Stelle 2 zurück.\n", "nach <a> das zweite aus <b>")
		},
		use: func(k int, t, r ctype, _ func(ctype) string) string {
			return fmt.Sprintf("Die %s zl%d ist eine Liste, die aus %s, %s besteht.\nSchreibe (nach %s das zweite aus zl%d) auf eine Zeile.\n", r.list, k, r.vals[0], r.vals[3], t.vals[2], k)
		}},
	{name: "plus_eins", nparams: 1, numeric: true,
		decl: func(pub, s string, t, r ty) string {
			return fn(pub, "plus_eins", s, "mit dem Parameter a vom Typ "+t.Name(), t.Ret(), "\tGib a plus 1 zurück.\n", "<a> und eins")
		},
		use: func(k int, t, r ctype, _ func(ctype) string) string {
			return fmt.Sprintf("Schreibe (%s und eins) auf eine Zeile.\n", t.vals[0])
		}},
	{name: "vertauscht", nparams: 1, usesPaar: true, // generic Kombination as parameter and result
		decl: func(pub, s string, t, r ty) string {
			return fn(pub, "vertauscht", s, "mit dem Parameter p vom Typ "+t.Paar(), "ein "+t.Paar(), "\tGib Paar((y von p), (x von p)) zurück.\n", "<p> vertauscht")
		},
		use: func(k int, t, r ctype, paar func(ctype) string) string {
			return fmt.Sprintf("Das %s pa%d ist Paar(%s, %s).\nDas %s pb%d ist pa%d vertauscht.\nDas %s pc%d ist pb%d.\nSchreibe (x von pc%d) auf eine Zeile.\nSchreibe (y von pb%d) auf eine Zeile.\nSchreibe (x von pa%d) auf eine Zeile.\n", paar(t), k, t.vals[0], t.vals[1], paar(t), k, k, paar(t), k, k, k, k, k)
		}},
}

const commonDecls = `Wir definieren eine Hausnummer %[3]sals eine Zahl.

Wir nennen die %[1]sKombination aus
	der %[2]sZahl x mit Standardwert 0,
einen Punkt, und erstellen sie so:
	"ein Punkt mit x <x>"

Die %[1]sFunktion Schreibe_Hausnummer_Zeile mit dem Parameter h vom Typ Hausnummer, gibt nichts zurück, macht:
	Schreibe "Nr. ".
	Schreibe (h als Zahl) auf eine Zeile.
Und kann so benutzt werden:
	"Schreibe <h> auf eine Zeile"

Die %[1]sFunktion Schreibe_Punkt_Zeile mit dem Parameter p vom Typ Punkt, gibt nichts zurück, macht:
	Schreibe "P".
	Schreibe (x von p) auf eine Zeile.
Und kann so benutzt werden:
	"Schreibe <p> auf eine Zeile"

`

type inst struct {
	tmpl int
	t, r int // indices into types
}

func (i inst) key() string { return fmt.Sprintf("%d/%d/%d", i.tmpl, i.t, i.r) }

func paarDecl(pub, pubf string, generic bool, c ctype) string {
	if generic {
		return fmt.Sprintf("Wir nennen die %sgenerische Kombination aus\n\tdem %sT x,\n\tdem %sT y,\nein Paar, und erstellen sie so:\n\t\"Paar(<x>, <y>)\"\n\n", pub, pubf, pubf)
	}
	art := map[string]string{"Die": "der", "Der": "dem"}[c.art]
	return fmt.Sprintf("Wir nennen die %sKombination aus\n\t%s %s%s x,\n\t%s %s%s y,\nein Paar%s, und erstellen sie so:\n\t\"Paar(<x>, <y>)\"\n\n", pub, art, pubf, c.name, art, pubf, c.name, c.ident)
}

func generate(t *rapid.T) Case {
	n := rapid.IntRange(2, 7).Draw(t, "instantiations")
	var insts []inst
	seen := map[string]bool{}
	for len(insts) < n {
		ti := rapid.IntRange(0, len(templates)-1).Draw(t, "template")
		tm := templates[ti]
		pick := func(l string) int {
			for {
				k := rapid.IntRange(0, len(types)-1).Draw(t, l)
				if !tm.numeric || types[k].numeric {
					return k
				}
			}
		}
		in := inst{tmpl: ti, t: pick("T")}
		if tm.nparams == 2 {
			in.r = pick("R")
		}
		// repeated instantiation (same tuple twice) is wanted, too
		insts = append(insts, in)
		seen[in.key()] = true
		if tm.nparams == 2 && rapid.Bool().Draw(t, "permuted-too") && in.t != in.r { // the same types bound the other way round
			insts = append(insts, inst{tmpl: ti, t: in.r, r: in.t})
		}
		if rapid.IntRange(0, 3).Draw(t, "typedef-twin") == 0 && types[in.t].name == "Zahl" { // the type definition over the same type
			insts = append(insts, inst{tmpl: ti, t: 5, r: in.r})
		}
	}
	split := rapid.Bool().Draw(t, "split-into-modules")
	libUses := split && rapid.Bool().Draw(t, "lib-uses-generics")
	level := rapid.SampledFrom([]int{0, 1, 2}).Draw(t, "level")
	var desc []string

	usedTemplates := map[int]bool{}
	for _, in := range insts {
		usedTemplates[in.tmpl] = true
		desc = append(desc, "template:"+templates[in.tmpl].name)
	}
	usedTemplates[4] = true // erstes_oder calls waehle
	needPaar := map[int]bool{}
	for _, in := range insts {
		if templates[in.tmpl].usesPaar {
			needPaar[in.t] = true
		}
	}

	render := func(generic bool) map[string]string {
		pub, pubf := "", ""
		if split {
			pub, pubf = "öffentliche ", "öffentlichen "
		}
		var decls strings.Builder
		fmt.Fprintf(&decls, commonDecls, pub, pubf, map[bool]string{true: "öffentlich ", false: ""}[split])
		if len(needPaar) > 0 {
			if generic {
				decls.WriteString(paarDecl(pub, pubf, true, ctype{}))
			} else {
				var ks []int
				for k := range needPaar {
					ks = append(ks, k)
				}
				sort.Ints(ks)
				for _, k := range ks {
					decls.WriteString(paarDecl(pub, pubf, false, types[k]))
				}
			}
		}
		var tis []int
		for ti := range usedTemplates {
			tis = append(tis, ti)
		}
		sort.Ints(tis)
		for _, ti := range tis {
			tm := templates[ti]
			if generic {
				gpub := pub + "generische "
				decls.WriteString(tm.decl(gpub, "", ty{generic: true, letter: "T"}, ty{generic: true, letter: "R"}))
				continue
			}
			// one specialised copy per distinct type tuple (+ what erstes_oder needs of waehle)
			done := map[string]bool{}
			emit := func(a, b int) {
				k := fmt.Sprintf("%d/%d", a, b)
				if done[k] {
					return
				}
				done[k] = true
				suffix := "_" + types[a].ident
				if tm.nparams == 2 {
					suffix += "_" + types[b].ident
				}
				decls.WriteString(tm.decl(pub, suffix, ty{c: types[a]}, ty{c: types[b]}))
			}
			for _, in := range insts {
				if in.tmpl == ti {
					emit(in.t, in.r)
				}
				if ti == 4 && templates[in.tmpl].name == "erstes_oder" {
					emit(in.t, 0)
				}
			}
		}
		paar := func(c ctype) string {
			if generic {
				return c.name + "-Paar"
			}
			return "Paar" + c.ident
		}
		var uses strings.Builder
		for k, in := range insts {
			fmt.Fprintf(&uses, "Schreibe \"-- %d %s\" auf eine Zeile.\n", k, templates[in.tmpl].name)
			uses.WriteString(templates[in.tmpl].use(k, types[in.t], types[in.r], paar))
		}
		files := map[string]string{}
		if !split {
			files["main.ddp"] = "Binde \"Duden/Ausgabe\" ein.\n\n" + decls.String() + uses.String()
			return files
		}
		lib := "Binde \"Duden/Ausgabe\" ein.\n\n" + decls.String()
		if libUses { // the declaring module instantiates, too (the first instantiation of the list)
			in := insts[0]
			body := templates[in.tmpl].use(900, types[in.t], types[in.r], paar)
			lib += "Die öffentliche Funktion bibliothek_nutzt gibt nichts zurück, macht:\n\tSchreibe \"in der Bibliothek\" auf eine Zeile.\n"
			for _, l := range strings.Split(strings.TrimRight(body, "\n"), "\n") {
				lib += "\t" + l + "\n"
			}
			lib += "Und kann so benutzt werden:\n\t\"nutze die Bibliothek\"\n\n"
		}
		files["lib.ddp"] = lib
		mainSrc := "Binde \"Duden/Ausgabe\" ein.\nBinde \"lib\" ein.\n\n"
		if libUses {
			mainSrc += "nutze die Bibliothek.\n"
		}
		files["main.ddp"] = mainSrc + uses.String()
		return files
	}
	c := Case{Level: level, Generic: render(true), Special: render(false)}
	if split {
		desc = append(desc, "two-modules")
	}
	if libUses {
		desc = append(desc, "instantiated-in-declaring-module-too")
	}
	// negative variants
	if rapid.IntRange(0, 9).Draw(t, "fault") < 3 {
		a, b := rapid.IntRange(0, len(types)-1).Draw(t, "fa"), rapid.IntRange(0, len(types)-1).Draw(t, "fb")
		if a != b {
			var stmt string
			switch rapid.IntRange(0, 2).Draw(t, "fault-kind") {
			case 0:
				c.Fault = "one type parameter bound to two types (Referenz arguments)"
				stmt = fmt.Sprintf("%s fa ist %s.\n%s fb ist %s.\ntausche fa und fb.\n", types[a].art+" "+types[a].name, types[a].vals[0], types[b].art+" "+types[b].name, types[b].vals[0])
				usedTemplates[0] = true
			case 1:
				c.Fault = "one type parameter bound to two types (list and element)"
				stmt = fmt.Sprintf("Die %s fl ist eine Liste, die aus %s, %s besteht.\nSchreibe (die Länge von (fl erweitert um %s)) auf eine Zeile.\n", types[a].list, types[a].vals[0], types[a].vals[1], types[b].vals[0])
				usedTemplates[2] = true
			default:
				c.Fault = "assignment between different instantiations of the generic Kombination"
				stmt = fmt.Sprintf("Das %s-Paar fp ist Paar(%s, %s).\nDas %s-Paar fq ist fp.\n", types[a].name, types[a].vals[0], types[a].vals[1], types[b].name)
				needPaar[a] = true
			}
			c.ExpectReject = true
			g := render(true)
			g["main.ddp"] += stmt
			c.Generic, c.Special = g, nil
			desc = append(desc, "fault:"+strings.SplitN(c.Fault, " (", 2)[0])
		}
	}
	sort.Strings(desc)
	c.Desc = desc
	return c
}

// ---------------------------------------------------------------- judge

func dump(files map[string]string) string {
	var names []string
	for n := range files {
		names = append(names, n)
	}
	sort.Strings(names)
	var sb strings.Builder
	for _, n := range names {
		fmt.Fprintf(&sb, "--- %s\n%s", n, files[n])
	}
	return sb.String()
}

func build(files map[string]string, level int) (ddp.Result, ddp.Result, string) {
	dir := ddp.TempDir("verif-c15-")
	defer os.RemoveAll(dir)
	ddp.WriteFiles(dir, files)
	cr := ddp.Compile(dir, "main.ddp", filepath.Join(dir, "main"), "-O", fmt.Sprint(level))
	if cr.TimedOut || cr.Exit != 0 {
		return cr, ddp.Result{}, "build"
	}
	r := ddp.Exec(dir, filepath.Join(dir, "main"), "")
	return cr, r, "run"
}

func judge(c Case) (*vf.Failure, string) {
	if c.ExpectReject {
		res := fe.ParseFiles(c.Generic, "main.ddp")
		defer os.RemoveAll(res.Dir)
		if res.Panic != "" || res.Err != "" {
			return nil, "frontend-crash(C03)"
		}
		errs := 0
		for _, d := range res.Diags {
			if d.IsError() {
				errs++
			}
		}
		if !res.Faulty || errs == 0 {
			return vf.NewFailure("C15:accepted:"+strings.SplitN(c.Fault, " (", 2)[0], fmt.Sprintf("%s - but the program was accepted\n%s", c.Fault, dump(c.Generic)), c), "violation"
		}
		return nil, "ok"
	}
	scr, sr, sstage := build(c.Special, c.Level)
	if scr.TimedOut || sr.TimedOut {
		return nil, "inconclusive-timeout"
	}
	if sstage == "build" {
		return nil, "specialised-program-does-not-build(generator): " + ddp.Trunc(scr.Stderr+scr.Stdout, 400)
	}
	gcr, gr, gstage := build(c.Generic, c.Level)
	if gcr.TimedOut || gr.TimedOut {
		return nil, "inconclusive-timeout"
	}
	if gstage == "build" {
		return vf.NewFailure("C15:generic-does-not-build", fmt.Sprintf("-O %d: the hand-specialised program builds, the generic one does not:\n%s\n=== generic\n%s=== specialised\n%s", c.Level, ddp.Trunc(gcr.Stderr+gcr.Stdout, 1500), dump(c.Generic), dump(c.Special)), c), "violation"
	}
	if gr.Stdout != sr.Stdout || gr.Exit != sr.Exit || gr.Signal != sr.Signal {
		return vf.NewFailure("C15:behaviour-differs", fmt.Sprintf("-O %d: generic: %s, specialised: %s\n--- generic stdout\n%s\n--- specialised stdout\n%s\n--- generic stderr\n%s\n=== generic\n%s=== specialised\n%s", c.Level, gr.String(), sr.String(), ddp.Trunc(gr.Stdout, 1500), ddp.Trunc(sr.Stdout, 1500), ddp.Trunc(gr.Stderr, 500), dump(c.Generic), dump(c.Special)), c), "violation"
	}
	if sr.Exit != 0 {
		return nil, "both-fail-the-same-way(not judged here)"
	}
	return nil, "ok"
}

func TestMain(m *testing.M) {
	vf.Main(m, vf.Def{
		ID:    "C15",
		Level: "exploration",
		Rule: "differential: generated projects with 2-7 (+ permuted / type-definition twin) instantiations of 12 generic function templates (swap through Referenz parameters, first element, append, index of an element with for-each and equality, choice, reversal with a local generic list, a generic calling a generic, recursion inside a generic, two type parameters with output inside the body, a generic local copy, numeric 'plus 1', a generic Kombination as parameter and result) over the concrete types Zahl, Kommazahl, Text, Buchstabe, Wahrheitswert, a type definition of Zahl with its own output overload and a Kombination; in one module or with the generic declarations in an imported module that instantiates them itself as well; " +
			"each project is printed twice: generic, and hand-specialised (type parameters replaced textually, one copy per type tuple, same aliases); both are built by the real kddp at a drawn -O level: the generic one must build whenever the specialised one does and print exactly the same; 30% negative variants (one type parameter bound to two types through Referenz arguments / list+element, assignment between two instantiations of the generic Kombination) must be rejected; " +
			"non-trivial = project with >= 2 instantiations of one template or a two-parameter template; distinct by file set",
		Assumptions: []string{"a specialised program that does not build is a generator defect and is discarded (counted)", "nested lists of type parameters are excluded (known finding C02-nested-list-type)"},
		Judge: func(raw json.RawMessage) *vf.Failure {
			var c Case
			if err := json.Unmarshal(raw, &c); err != nil {
				return vf.NewFailure("harness:bad-case", err.Error(), nil)
			}
			f, _ := judge(c)
			return f
		},
	})
}

func TestGenericVsSpecialised(t *testing.T) {
	defer vf.AfterCheck(t)
	vf.Checks(240, 6000)
	rapid.Check(t, func(t *rapid.T) {
		c := generate(t)
		nt := false
		cnt := map[string]int{}
		for _, d := range c.Desc {
			cnt[d]++
			if cnt[d] >= 2 || d == "template:zeige_beide" || d == "template:zweites_von" {
				nt = true
			}
		}
		vf.Case(dump(c.Generic), nt, c.Desc...)
		f, outcome := judge(c)
		if vf.Report(t, f) {
			return
		}
		if outcome != "ok" {
			key := outcome
			if p := strings.Index(key, ":"); p > 0 {
				key = key[:p]
			}
			vf.Count(key)
			vf.Sample(key, map[string]any{"why": outcome, "generic": c.Generic, "specialised": c.Special})
			return
		}
		vf.Sample("ok", map[string]any{"desc": c.Desc})
	})
}
