// C05 — compiled programs release every heap block exactly once.
package c05

import (
	"encoding/json"
	"fmt"
	"os"
	"path/filepath"
	"sort"
	"strings"
	"testing"

	"pgregory.net/rapid"

	"verif/ddp"
	"verif/fe"
	"verif/gen"
	"verif/ref"
	"verif/vf"
)

type Case struct {
	Source   string   `json:"source"`
	Levels   []int    `json:"levels"`
	Features []string `json:"features,omitempty"`
}

func TestMain(m *testing.M) {
	vf.Main(m, vf.Def{
		ID:    "C05",
		Level: "exploration",
		Rule: "generated programs of the core language that terminate normally (per the reference interpreter), biased to non-primitive values (Text, lists, lists of Text/Kombination, Kombinationen with non-primitive fields) in every ownership role (variable, temporary, value and Referenz argument, return value, list element, field, discarded result) and to early exits (return from nested blocks/loops, break/continue from inner scopes, short-circuited operands, falls with mixed temporary/variable branches); " +
			"each is compiled by the real kddp (-O 0/1/2: one drawn level in quick, all in thorough) and linked against the AddressSanitizer/UBSan build of runtime and stdlib with an allocation ledger interposed on ddp_reallocate (--wrap); " +
			"oracle (invariant): every (pointer, oldSize, newSize) names a live block with that recorded size, no free/resize of a non-live pointer, the ledger is empty at exit, no sanitizer report (heap overflow/over-read, use after free, leak), no signal; " +
			"non-trivial = >= 20 allocations and >= 1 early-exit or temporary-claiming construct executed; distinct by source hash",
		Assumptions: []string{
			"generated IR itself is not sanitizer-instrumented: wild accesses made directly by generated code are only seen when they hit a freed/red-zone block touched later by instrumented runtime code or corrupt the ledger",
			"only normally terminating programs are judged (a Laufzeitfehler exits without releasing memory by design)",
		},
		Judge: func(raw json.RawMessage) *vf.Failure {
			var c Case
			if err := json.Unmarshal(raw, &c); err != nil {
				return vf.NewFailure("harness:bad-case", err.Error(), nil)
			}
			f, _, _ := judge(c)
			return f
		},
	})
}

func classify(stderr string) string {
	switch {
	case strings.Contains(stderr, "VERIF-LEDGER"):
		for _, l := range strings.Split(stderr, "\n") {
			if strings.Contains(l, "VERIF-LEDGER") {
				l = strings.TrimPrefix(l[strings.Index(l, "VERIF-LEDGER:"):], "VERIF-LEDGER: ")
				if i := strings.Index(l, " ("); i > 0 {
					l = l[:i]
				}
				if strings.Contains(l, "still live at exit") {
					return "ledger:leak"
				}
				return "ledger:" + l
			}
		}
	case strings.Contains(stderr, "AddressSanitizer"):
		for _, k := range []string{"heap-use-after-free", "heap-buffer-overflow", "double-free", "attempting free on address", "stack-buffer-overflow", "SEGV", "alloc-dealloc-mismatch", "global-buffer-overflow"} {
			if strings.Contains(stderr, k) {
				return "asan:" + k
			}
		}
		return "asan:other"
	case strings.Contains(stderr, "LeakSanitizer"):
		return "lsan:leak"
	case strings.Contains(stderr, "runtime error:"):
		return "ubsan"
	}
	return ""
}

func judge(c Case) (*vf.Failure, string, int64) {
	if res := fe.ParseSource("c05.ddp", []byte(c.Source)); !res.Accepted() {
		return nil, "frontend-rejected", 0
	}
	dir := ddp.TempDir("verif-c05-")
	defer os.RemoveAll(dir)
	os.WriteFile(filepath.Join(dir, "p.ddp"), []byte(c.Source), 0o644)
	var allocs int64
	for _, lvl := range c.Levels {
		exe := filepath.Join(dir, fmt.Sprintf("p%d", lvl))
		br, stage := ddp.BuildChecked(dir, "p.ddp", exe, lvl)
		if br.TimedOut {
			return nil, "inconclusive-build-timeout", 0
		}
		if br.Exit != 0 {
			return nil, "build-fails(C02):" + stage, 0
		}
		rr, st := ddp.ExecChecked(dir, exe)
		if rr.TimedOut {
			return nil, "inconclusive-run-timeout", 0
		}
		allocs = st[0]
		cls := classify(rr.Stderr)
		if cls == "" && rr.Signal != "" {
			cls = "signal:" + rr.Signal
		}
		if cls == "" && ddp.IsSegfault(rr) {
			cls = "segfault"
		}
		if cls == "" && rr.Exit != 0 {
			if ddp.IsLaufzeitfehler(rr) {
				return nil, "ends-in-laufzeitfehler(not judged)", allocs
			}
			cls = fmt.Sprintf("exit-%d", rr.Exit)
		}
		if cls != "" {
			return vf.NewFailure("C05:"+cls, fmt.Sprintf("-O %d: %s\nrun: %s; ledger: %d allocations, %d frees, %d live\nstderr:\n%s\n--- source\n%s", lvl, cls, rr.String(), st[0], st[1], st[2], ddp.Trunc(rr.Stderr, 2500), c.Source), c), "violation", allocs
		}
	}
	return nil, "ok", allocs
}

func TestHeapDiscipline(t *testing.T) {
	defer vf.AfterCheck(t)
	vf.Checks(480, 2400)
	rapid.Check(t, func(t *rapid.T) {
		cfg := gen.Config{MaxStmts: rapid.IntRange(3, 9).Draw(t, "size"), MaxDepth: rapid.IntRange(1, 3).Draw(t, "depth"), Funcs: 3, Structs: true, AllowRTE: false, Bias: "heap"}
		var prog *gen.Program
		var feats map[string]int
		if rapid.IntRange(0, 9).Draw(t, "profile") < 3 {
			prog, feats = gen.GenerateAlias(t) // aliasing scenarios: value+Referenz of one variable, globals, early exits
			feats["alias-scenario"]++
			feats["early-return"] += 0
		} else {
			prog, feats = gen.Generate(t, cfg)
		}
		if rapid.IntRange(0, 3).Draw(t, "main-in-function") > 0 { // holders as locals of a function instead of globals
			gen.WrapMain(prog)
			feats["main-in-function"]++
		}
		out := ref.Run(prog)
		if out.Budget || out.Unspecified != "" || out.Laufzeitfehler {
			vf.Count("discard:not-normally-terminating-or-unspecified")
			t.Skip("discard")
		}
		src := (&gen.Printer{ParenPrint: rapid.IntRange(0, 7).Draw(t, "paren-print") > 0}).Program(prog)
		c := Case{Source: src}
		if vf.Thorough() {
			c.Levels = []int{0, 1, 2}
		} else {
			c.Levels = []int{rapid.SampledFrom([]int{0, 1, 2, 2}).Draw(t, "level")}
		}
		for f := range feats {
			c.Features = append(c.Features, f)
		}
		sort.Strings(c.Features)
		f, outcome, allocs := judge(c)
		if vf.Report(t, f) {
			return
		}
		if outcome != "ok" {
			vf.Count("outcome:" + outcome)
			return
		}
		early := feats["break"]+feats["continue"]+feats["early-return"] > 0
		temps := false
		for k := range feats {
			if strings.HasPrefix(k, "falls:") || strings.HasPrefix(k, "concat:") || strings.HasPrefix(k, "call:val:list") || strings.HasPrefix(k, "call:val:Text") || strings.HasPrefix(k, "slice:") {
				temps = true
			}
		}
		nt := allocs >= 20 && (early || temps)
		fl := []string{fmt.Sprintf("levels:%v", c.Levels)}
		if early {
			fl = append(fl, "has-early-exit")
		}
		if temps {
			fl = append(fl, "has-temporaries")
		}
		switch {
		case allocs >= 100:
			fl = append(fl, "allocations>=100")
		case allocs >= 20:
			fl = append(fl, "allocations>=20")
		default:
			fl = append(fl, "allocations<20")
		}
		vf.Case(src, nt, fl...)
		if nt {
			vf.Sample("program", map[string]any{"source": src, "allocations": allocs, "levels": c.Levels})
		}
	})
}

// Variable holders (small and big values behind one type): own generator, same invariants.
func TestVariableHolders(t *testing.T) {
	defer vf.AfterCheck(t)
	vf.Checks(96, 600)
	rapid.Check(t, func(t *rapid.T) {
		src, _, feats := gen.GenerateVariableProgram(t, rapid.IntRange(0, 3).Draw(t, "main-in-function") > 0)
		c := Case{Source: src}
		if vf.Thorough() {
			c.Levels = []int{0, 1, 2}
		} else {
			c.Levels = []int{rapid.SampledFrom([]int{0, 1, 2, 2}).Draw(t, "level")}
		}
		fl := []string{"variable-scenario"}
		for f := range feats {
			c.Features = append(c.Features, f)
			fl = append(fl, f)
		}
		sort.Strings(c.Features)
		f, outcome, allocs := judge(c)
		if vf.Report(t, f) {
			return
		}
		if outcome != "ok" {
			vf.Count("outcome:" + outcome)
			if outcome == "frontend-rejected" {
				t.Logf("generator defect:\n%s", src)
			}
			return
		}
		vf.Case(src, allocs >= 20, fl...)
		vf.Sample("variable-scenario", map[string]any{"source": src, "allocations": allocs})
	})
}
