// C01 — compiled programs behave as DDP's evaluation rules prescribe.
package c08

import (
	"encoding/json"
	"fmt"
	"os"
	"path/filepath"
	"sort"
	"strings"
	"testing"

	"pgregory.net/rapid"

	"verif/ddp"
	"verif/fe"
	"verif/gen"
	"verif/ref"
	"verif/vf"
)

// Case is replayable without the generator: the source and the expectation computed by the reference evaluator.
type Case struct {
	Source   string   `json:"source"`
	Expect   string   `json:"expect_stdout"`
	ExpectRT bool     `json:"expect_laufzeitfehler"`
	Why      string   `json:"laufzeitfehler_reason,omitempty"`
	Levels   []int    `json:"levels"`
	Features []string `json:"features,omitempty"`
}

func TestMain(m *testing.M) {
	vf.Main(m, vf.Def{
		ID:    "C08",
		Level: "exploration",
		Rule: "aliasing scenarios: one non-primitive value kind (Text, Zahlen Liste, Text Liste, Kombination with list and Text fields, list of Kombinationen) gets several holders through a generated copy-introducing construct (initialiser, assignment, storing into / taking out of a list, falls result, by-value argument, local copy of a parameter) and one holder is mutated through a generated mutation form (whole assignment, indexed / character assignment, field assignment, compound assignment, concatenation, slicing, a Referenz-taking callee called directly or nested in another call's argument, a callee mutating its own by-value copy, a for-each loop that changes the iterated value, the Referenz twin parameter or a global that is also the by-value argument), with optional early return; every holder is printed before and after; plus heap-biased random programs; " +
			"oracle: the reference interpreter (copies by construction, only Referenz parameters alias) - stdout and exit status must match at -O 0, -O 1 AND -O 2 (all three always, the copy elision is level dependent); " +
			"non-trivial = the executed program mutates a holder while another holder of the same value is alive (all alias scenarios); distinct by source hash",
		Assumptions: []string{"same assumptions as C01 for the reference interpreter; a compile/run time-out is inconclusive"},
		Judge: func(raw json.RawMessage) *vf.Failure {
			var c Case
			if err := json.Unmarshal(raw, &c); err != nil {
				return vf.NewFailure("harness:bad-case", err.Error(), nil)
			}
			f, _ := judge(c)
			return f
		},
	})
}

func firstDiff(a, b string) string {
	al, bl := strings.Split(a, "\n"), strings.Split(b, "\n")
	for i := 0; i < len(al) || i < len(bl); i++ {
		var x, y string
		if i < len(al) {
			x = al[i]
		}
		if i < len(bl) {
			y = bl[i]
		}
		if x != y {
			return fmt.Sprintf("first difference at output line %d: expected %q, got %q", i+1, x, y)
		}
	}
	return "no difference"
}

// judge compiles and runs the case at each level and compares with the expectation.
func judge(c Case) (*vf.Failure, string) {
	res := fe.ParseSource("c08.ddp", []byte(c.Source))
	if !res.Accepted() {
		return nil, "frontend-rejected: " + strings.Join(res.DiagStrings(), " | ") + res.Panic + res.Err
	}
	dir := ddp.TempDir("verif-c08-")
	defer os.RemoveAll(dir)
	os.WriteFile(filepath.Join(dir, "p.ddp"), []byte(c.Source), 0o644)
	for _, lvl := range c.Levels {
		exe := fmt.Sprintf("p%d", lvl)
		cr := ddp.Compile(dir, "p.ddp", exe, "-O", fmt.Sprint(lvl))
		if cr.TimedOut {
			return nil, "inconclusive-compile-timeout"
		}
		if cr.Exit != 0 {
			out := cr.Stdout + cr.Stderr
			return vf.NewFailure("C08:compile-fails(C02)", fmt.Sprintf("-O %d: the frontend accepts the program but kddp fails:\n%s\n--- source\n%s", lvl, ddp.Trunc(out, 1500), c.Source), c), "compile-fails"
		}
		rr := ddp.Exec(dir, filepath.Join(dir, exe), "")
		if rr.TimedOut {
			return nil, "inconclusive-run-timeout"
		}
		wantExit := 0
		if c.ExpectRT {
			wantExit = 1
		}
		var problem string
		switch {
		case rr.Signal != "":
			problem = "killed by signal " + rr.Signal
		case ddp.IsSegfault(rr):
			problem = "segmentation fault (reported by the runtime's signal handler as 'Laufzeitfehler: Segmentation fault')"
		case rr.Stdout != c.Expect:
			problem = "standard output differs: " + firstDiff(c.Expect, rr.Stdout)
		case rr.Exit != wantExit:
			problem = fmt.Sprintf("exit status %d, expected %d", rr.Exit, wantExit)
		case c.ExpectRT && !strings.Contains(rr.Stderr, "Laufzeitfehler"):
			problem = "exit status 1 without a Laufzeitfehler message on stderr"
		}
		if problem != "" {
			sig := "C08:output"
			if rr.Signal != "" || ddp.IsSegfault(rr) {
				sig = "C08:signal"
			} else if rr.Exit != wantExit {
				sig = "C08:exit-status"
			}
			return vf.NewFailure(sig, fmt.Sprintf("-O %d: %s\nexpected exit %d (Laufzeitfehler: %v %s), got %s; stderr: %s\n--- expected stdout\n%s\n--- actual stdout\n%s\n--- source\n%s",
				lvl, problem, wantExit, c.ExpectRT, c.Why, rr.String(), ddp.Trunc(rr.Stderr, 300), ddp.Trunc(c.Expect, 1500), ddp.Trunc(rr.Stdout, 1500), c.Source), c), "violation"
		}
	}
	return nil, "ok"
}

func TestValueSemantics(t *testing.T) {
	defer vf.AfterCheck(t)
	vf.Checks(160, 1600)
	rapid.Check(t, func(t *rapid.T) {
		var prog *gen.Program
		var feats map[string]int
		scenario := rapid.IntRange(0, 9).Draw(t, "profile") < 7
		if scenario {
			prog, feats = gen.GenerateAlias(t)
		} else {
			prog, feats = gen.Generate(t, gen.Config{MaxStmts: rapid.IntRange(3, 8).Draw(t, "size"), MaxDepth: 2, Funcs: 3, Structs: true, Bias: "heap"})
		}
		if rapid.IntRange(0, 3).Draw(t, "main-in-function") > 0 { // holders as locals of a function instead of globals
			gen.WrapMain(prog)
			feats["main-in-function"]++
		}
		src := (&gen.Printer{ParenPrint: rapid.IntRange(0, 7).Draw(t, "paren-print") > 0}).Program(prog)
		out := ref.Run(prog)
		if out.Budget || out.Unspecified != "" {
			vf.Count("discard:unspecified-or-budget")
			t.Skip("discard")
		}
		c := Case{Source: src, Expect: out.Stdout, ExpectRT: out.Laufzeitfehler, Why: out.Why, Levels: []int{0, 1, 2}}
		for f := range feats {
			c.Features = append(c.Features, f)
		}
		sort.Strings(c.Features)
		f, outcome := judge(c)
		if strings.HasPrefix(outcome, "frontend-rejected") {
			vf.Count("generator:frontend-rejected")
			if os.Getenv("VERIF_DEBUG_REJECTS") != "" {
				fmt.Fprintf(os.Stderr, "REJECTED %s\n%s\n", outcome, src)
			}
			vf.Sample("frontend-rejected(generator defect)", map[string]string{"why": outcome, "source": src})
			t.Skip("rejected")
		}
		if vf.Report(t, f) {
			return
		}
		if strings.HasPrefix(outcome, "inconclusive") {
			vf.Count(outcome)
			return
		}
		fl := []string{fmt.Sprintf("scenario=%v", scenario)}
		for _, f := range c.Features {
			if strings.HasPrefix(f, "action:") || strings.HasPrefix(f, "kind:") || strings.HasPrefix(f, "copy-construct:") || strings.HasPrefix(f, "call:val+ref") || strings.HasPrefix(f, "global") || f == "early-return" {
				fl = append(fl, "f:"+f)
			}
		}
		vf.Case(src, scenario, fl...)
		if scenario {
			vf.Sample("alias-scenario", map[string]any{"source": src, "expected_stdout": out.Stdout})
		}
	})
}

// Variable contents are values, too: dedicated generator with its own model (gen/variable.go).
func TestVariableContents(t *testing.T) {
	defer vf.AfterCheck(t)
	vf.Checks(96, 600)
	rapid.Check(t, func(t *rapid.T) {
		src, expect, feats := gen.GenerateVariableProgram(t, rapid.IntRange(0, 3).Draw(t, "main-in-function") > 0)
		c := Case{Source: src, Expect: expect, Levels: []int{0, 1, 2}}
		var fl []string
		for f := range feats {
			c.Features = append(c.Features, f)
			fl = append(fl, "f:"+f)
		}
		sort.Strings(c.Features)
		f, outcome := judge(c)
		if strings.HasPrefix(outcome, "frontend-rejected") {
			vf.Count("generator:frontend-rejected")
			vf.Sample("frontend-rejected(generator defect)", map[string]string{"why": outcome, "source": src})
			t.Logf("generator defect: %s\n%s", outcome, src)
			t.Skip("rejected")
		}
		if vf.Report(t, f) {
			return
		}
		if strings.HasPrefix(outcome, "inconclusive") {
			vf.Count(outcome)
			return
		}
		vf.Case(src, true, append(fl, "variable-scenario")...)
		vf.Sample("variable-scenario", map[string]any{"source": src, "expected_stdout": expect})
	})
}
