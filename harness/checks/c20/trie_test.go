// C20 — duplicate aliases are always rejected; declared aliases stay callable.
// Layer 1: model-based (state machine) test of the real alias store with the parser's real key predicates.
package c20

import (
	"encoding/json"
	"fmt"
	"sort"
	"strings"
	"testing"

	"github.com/DDP-Projekt/Kompilierer/src/ddptypes"
	"github.com/DDP-Projekt/Kompilierer/src/parser"
	at "github.com/DDP-Projekt/Kompilierer/src/parser/alias_trie"
	"github.com/DDP-Projekt/Kompilierer/src/token"
	"pgregory.net/rapid"

	"verif/vf"
)

// ---- token pool -------------------------------------------------------------

type tokSpec struct {
	Kind string `json:"kind"` // word | kw | int | param | arg (search only)
	Lit  string `json:"lit,omitempty"`
	Type string `json:"type,omitempty"` // param type id
	Ref  bool   `json:"ref,omitempty"`
}

func (s tokSpec) String() string {
	switch s.Kind {
	case "param":
		r := ""
		if s.Ref {
			r = "&"
		}
		return "<" + r + s.Type + ">"
	case "arg":
		return "ARG"
	}
	return s.Lit
}

var (
	sA = &ddptypes.StructType{Name: "S", GramGender: ddptypes.MASKULIN}
	sB = &ddptypes.StructType{Name: "S", GramGender: ddptypes.MASKULIN} // another module's "S"
	sC = &ddptypes.StructType{Name: "S", GramGender: ddptypes.MASKULIN}
	sD = &ddptypes.StructType{Name: "S", GramGender: ddptypes.MASKULIN}
	dA = &ddptypes.TypeDef{Name: "N", Underlying: ddptypes.ZAHL, GramGender: ddptypes.FEMININ}
	dB = &ddptypes.TypeDef{Name: "N", Underlying: ddptypes.ZAHL, GramGender: ddptypes.FEMININ}
	dC = &ddptypes.TypeDef{Name: "N", Underlying: ddptypes.TEXT, GramGender: ddptypes.FEMININ}

	paramTypes = map[string]ddptypes.Type{
		"Zahl": ddptypes.ZAHL, "Kommazahl": ddptypes.KOMMAZAHL, "Text": ddptypes.TEXT, "Variable": ddptypes.VARIABLE,
		"ZahlenListe": ddptypes.ListType{ElementType: ddptypes.ZAHL}, "TextListe": ddptypes.ListType{ElementType: ddptypes.TEXT},
		"S@a": sA, "S@b": sB, "S@c": sC, "S@d": sD,
		"S@aListe": ddptypes.ListType{ElementType: sA}, "S@bListe": ddptypes.ListType{ElementType: sB}, "S@cListe": ddptypes.ListType{ElementType: sC},
		"N@a": dA, "N@b": dB, "N@c": dC,
		"AliasZahl": &ddptypes.TypeAlias{Name: "Ganzzahl", Underlying: ddptypes.ZAHL, GramGender: ddptypes.FEMININ},
		"AliasS@a":  &ddptypes.TypeAlias{Name: "T", Underlying: sA, GramGender: ddptypes.MASKULIN},
	}
	paramTypeNames = func() []string {
		var n []string
		for k := range paramTypes {
			n = append(n, k)
		}
		sort.Strings(n)
		return n
	}()
)

func mkTok(s tokSpec) *token.Token {
	switch s.Kind {
	case "word":
		return &token.Token{Type: token.IDENTIFIER, Literal: s.Lit}
	case "int":
		return &token.Token{Type: token.INT, Literal: s.Lit}
	case "kw":
		return &token.Token{Type: token.KeywordToTokenType(s.Lit), Literal: s.Lit}
	case "param":
		return &token.Token{Type: token.ALIAS_PARAMETER, Literal: "<p>", AliasInfo: &ddptypes.ParameterType{Type: paramTypes[s.Type], IsReference: s.Ref}}
	}
	return &token.Token{Type: token.SYMBOL, Literal: "§no-match§"}
}

func mkKey(specs []tokSpec) []*token.Token {
	k := make([]*token.Token, len(specs))
	for i, s := range specs {
		k[i] = mkTok(s)
	}
	return k
}

// ---- history ---------------------------------------------------------------

type Op struct {
	Op  string    `json:"op"` // declare | lookup | search | copy
	Key []tokSpec `json:"key"`
}
type History struct {
	Ops []Op `json:"ops"`
}

func keyString(k []tokSpec) string {
	p := make([]string, len(k))
	for i, s := range k {
		p[i] = s.String()
	}
	return strings.Join(p, " ")
}

type entry struct {
	spec []tokSpec
	key  []*token.Token
	val  *int
}

func keysEqual(a, b []*token.Token) bool {
	if len(a) != len(b) {
		return false
	}
	for i := range a {
		if !parser.VerifTokenEqual(a[i], b[i]) {
			return false
		}
	}
	return true
}

// judgeHistory replays a history against the real trie and the list model.
func judgeHistory(h History) (*vf.Failure, map[string]bool) {
	feats := map[string]bool{}
	trie := at.New[*token.Token, *int](parser.VerifTokenEqual, parser.VerifTokenLess)
	var model []entry
	fail := func(sig, format string, a ...any) (*vf.Failure, map[string]bool) {
		var sb strings.Builder
		for i, o := range h.Ops {
			fmt.Fprintf(&sb, "  %2d %-8s %s\n", i, o.Op, keyString(o.Key))
		}
		return vf.NewFailure("C20:"+sig, fmt.Sprintf(format, a...)+"\nhistory:\n"+sb.String(), h), feats
	}
	return judgeHistoryInner(h, feats, trie, model, fail)
}

func judgeHistoryInner(h History, feats map[string]bool, trie *at.Trie[*token.Token, *int], model []entry, fail func(string, string, ...any) (*vf.Failure, map[string]bool)) (f *vf.Failure, fe map[string]bool) {
	step := 0
	defer func() {
		if r := recover(); r != nil {
			f, fe = fail("store-panics", "step %d: the alias store panics: %v", step, r)
		}
	}()
	var o Op
	for step, o = range h.Ops {
		switch o.Op {
		case "declare", "lookup":
			key := mkKey(o.Key)
			var found *entry
			for i := range model {
				if keysEqual(model[i].key, key) {
					found = &model[i]
				}
			}
			ok, v := trie.Contains(key)
			exists := ok && v != nil
			if exists != (found != nil) {
				if found != nil {
					return fail("declared-alias-not-found", "step %d %s %q: alias was declared (as %q) but the store does not find it: a duplicate declaration is accepted", step, o.Op, keyString(o.Key), keyString(found.spec))
				}
				return fail("phantom-alias", "step %d %s %q: store reports an alias that was never declared", step, o.Op, keyString(o.Key))
			}
			if exists && v != found.val {
				return fail("wrong-value", "step %d %s %q: store returns the value of another alias", step, o.Op, keyString(o.Key))
			}
			if o.Op == "declare" && !exists {
				val := new(int)
				*val = len(model)
				trie.Insert(key, val)
				// incomparable siblings? (feature for the non-triviality rule)
				for _, m := range model {
					n := min(len(m.key), len(key))
					for i := 0; i < n; i++ {
						eq := parser.VerifTokenEqual(m.key[i], key[i])
						if !eq {
							if !parser.VerifTokenLess(m.key[i], key[i]) && !parser.VerifTokenLess(key[i], m.key[i]) {
								feats["incomparable-siblings"] = true
							}
							break
						}
					}
				}
				model = append(model, entry{o.Key, key, val})
			} else if o.Op == "declare" {
				feats["duplicate-rejected"] = true
			}
		case "copy":
			trie = at.Copy(trie)
			feats["copy"] = true
		case "search":
			// call-site tokens: concrete tokens or ARG (an argument, matches any placeholder)
			seq := o.Key
			toks := mkKey(seq)
			pos := map[int]int{}
			cur := 0
			got := trie.Search(func(node int, child *token.Token) (*token.Token, bool) {
				if p, ok := pos[node]; ok {
					cur = p
				} else {
					pos[node] = cur
				}
				if cur >= len(seq) {
					return nil, false
				}
				i := cur
				cur++
				if child.Type == token.ALIAS_PARAMETER {
					if seq[i].Kind == "arg" {
						return child, true
					}
					return toks[i], true
				}
				return toks[i], true
			})
			want := map[*int]int{}
			for _, m := range model {
				if len(m.key) > len(seq) {
					continue
				}
				match := true
				for i := range m.key {
					if m.key[i].Type == token.ALIAS_PARAMETER {
						match = match && seq[i].Kind == "arg"
					} else {
						match = match && seq[i].Kind != "arg" && parser.VerifTokenEqual(m.key[i], toks[i])
					}
				}
				if match {
					want[m.val]++
				}
			}
			gotm := map[*int]int{}
			for _, v := range got {
				gotm[v]++
			}
			for v, n := range want {
				if gotm[v] != n {
					return fail("declared-alias-not-callable", "step %d search %q: alias %q matches these tokens but the store returns it %d times (expected %d)", step, keyString(seq), keyString(model[*v].spec), gotm[v], n)
				}
			}
			for v, n := range gotm {
				if want[v] != n {
					return fail("search-extra", "step %d search %q: store returns alias %q %d times, model %d", step, keyString(seq), keyString(model[*v].spec), n, want[v])
				}
			}
			if len(want) > 0 {
				feats["search-hit"] = true
			}
		}
	}
	// closing sweep: every declared alias is still found and callable
	for _, m := range model {
		ok, v := trie.Contains(m.key)
		if !ok || v != m.val {
			return fail("declared-alias-not-found", "after the history: declared alias %q is not found by exact lookup", keyString(m.spec))
		}
	}
	feats[fmt.Sprintf("declared>=3:%v", len(model) >= 3)] = true
	return nil, feats
}

// ---- generators ------------------------------------------------------------

func genTok(t *rapid.T, forSearch bool) tokSpec {
	switch rapid.IntRange(0, 9).Draw(t, "tk") {
	case 0, 1, 2:
		return tokSpec{Kind: "word", Lit: rapid.SampledFrom([]string{"foo", "bar", "baz"}).Draw(t, "w")}
	case 3:
		return tokSpec{Kind: "kw", Lit: rapid.SampledFrom([]string{"mit", "von"}).Draw(t, "kw")}
	case 4:
		return tokSpec{Kind: "int", Lit: rapid.SampledFrom([]string{"1", "2"}).Draw(t, "i")}
	default:
		if forSearch {
			return tokSpec{Kind: "arg"}
		}
		return tokSpec{Kind: "param", Type: rapid.SampledFrom(paramTypeNames).Draw(t, "pt"), Ref: rapid.IntRange(0, 3).Draw(t, "ref") == 0}
	}
}

func genKey(t *rapid.T, prev []Op, forSearch bool) []tokSpec {
	var key []tokSpec
	// often extend/modify an earlier key so that keys share prefixes and become siblings
	if len(prev) > 0 && rapid.IntRange(0, 3).Draw(t, "reuse") > 0 {
		p := rapid.SampledFrom(prev).Draw(t, "base").Key
		cut := rapid.IntRange(0, len(p)).Draw(t, "cut")
		key = append(key, p[:cut]...)
		if forSearch {
			for i := range key {
				if key[i].Kind == "param" {
					key[i] = tokSpec{Kind: "arg"}
				}
			}
			if rapid.Bool().Draw(t, "whole") {
				for _, s := range p[cut:] {
					if s.Kind == "param" {
						s = tokSpec{Kind: "arg"}
					}
					key = append(key, s)
				}
			}
		}
	}
	n := rapid.IntRange(0, 3).Draw(t, "extra")
	if len(key) == 0 && n == 0 {
		n = 1
	}
	for i := 0; i < n; i++ {
		key = append(key, genTok(t, forSearch))
	}
	return key
}

func TestMain(m *testing.M) {
	vf.Main(m, vf.Def{
		ID:    "C20",
		Level: "exploration",
		Rule: "layer 1: rapid state machine over the real alias_trie.Trie keyed with the parser's real tokenEqual/tokenLess (build tag verif): operations declare (parser protocol: exists-check then insert) / lookup / search (call-site token sequence with argument wildcards) / copy; keys over {3 words, 2 keywords, 2 ints} and placeholders of 18 parameter types x Referenz, " +
			"including distinct types that print alike (4 Kombinationen named S, 3 definitions named N, aliases); oracle = plain list searched linearly with tokenEqual. layer 2: generated multi-module programs declaring colliding aliases in permuted orders. " +
			"non-trivial = >=3 accepted declarations of which >=2 are order-incomparable siblings (neither less, not equal), or a rejected duplicate followed by lookups; distinct by history hash",
		Assumptions: []string{"the parser's protocol (exists-check before every insert) is followed; the raw Insert-overwrite behaviour of the trie is not judged"},
		Judge: func(raw json.RawMessage) *vf.Failure {
			var p ProgCase
			if json.Unmarshal(raw, &p) == nil && len(p.Files) > 0 {
				f, _ := judgeProg(p)
				return f
			}
			var h History
			if err := json.Unmarshal(raw, &h); err != nil {
				return vf.NewFailure("harness:bad-case", err.Error(), nil)
			}
			f, _ := judgeHistory(h)
			return f
		},
	})
}

func TestTrieModel(t *testing.T) {
	defer vf.AfterCheck(t)
	vf.Checks(40000, 1500000)
	rapid.Check(t, func(t *rapid.T) {
		var h History
		n := rapid.IntRange(1, 30).Draw(t, "len")
		for i := 0; i < n; i++ {
			var decls []Op
			for _, o := range h.Ops {
				if o.Op == "declare" {
					decls = append(decls, o)
				}
			}
			switch rapid.IntRange(0, 9).Draw(t, "op") {
			case 0, 1, 2, 3, 4:
				h.Ops = append(h.Ops, Op{"declare", genKey(t, decls, false)})
			case 5, 6:
				if len(decls) > 0 && rapid.Bool().Draw(t, "exact") {
					h.Ops = append(h.Ops, Op{"lookup", rapid.SampledFrom(decls).Draw(t, "lk").Key})
				} else {
					h.Ops = append(h.Ops, Op{"lookup", genKey(t, decls, false)})
				}
			case 7, 8:
				h.Ops = append(h.Ops, Op{"search", genKey(t, decls, true)})
			default:
				h.Ops = append(h.Ops, Op{Op: "copy"})
			}
		}
		f, feats := judgeHistory(h)
		if vf.Report(t, f) {
			return
		}
		nt := feats["declared>=3:true"] && (feats["incomparable-siblings"] || feats["duplicate-rejected"])
		var fl []string
		for k := range feats {
			fl = append(fl, "trie:"+k)
		}
		b, _ := json.Marshal(h)
		vf.Case("trie:"+string(b), nt, fl...)
		if nt && feats["incomparable-siblings"] {
			var ops []string
			for _, o := range h.Ops {
				ops = append(ops, o.Op+" "+keyString(o.Key))
			}
			vf.Sample("trie-history", ops)
		}
	})
}
