// C20 layer 2: generated (multi-module) programs that declare colliding aliases in permuted orders.
package c20

import (
	"encoding/json"
	"fmt"
	"path/filepath"
	"sort"
	"strings"
	"testing"

	"github.com/DDP-Projekt/Kompilierer/src/ast"
	"github.com/DDP-Projekt/Kompilierer/src/ddperror"
	"pgregory.net/rapid"

	"verif/fe"
	"verif/vf"
)

type Param struct {
	Name string `json:"name"`
	Type string `json:"type"` // Zahl | Text | ZL | S
	Ref  bool   `json:"ref,omitempty"`
}
type Item struct {
	Word  string `json:"word,omitempty"`
	Param int    `json:"param"` // index into Params when Word == ""
}
type Fn struct {
	Mod     string   `json:"mod"` // a | b | c | main
	Name    string   `json:"name"`
	Params  []Param  `json:"params"`
	Aliases [][]Item `json:"aliases"`
}
type ProgSpec struct {
	Imports []string `json:"imports"` // import order of modules
	Fns     []Fn     `json:"fns"`     // declaration order (per module the relative order counts)
}
type ProgCase struct {
	Spec  ProgSpec          `json:"spec"`
	Files map[string]string `json:"files"`
}

func typeSrc(p Param, plural bool) string {
	switch p.Type {
	case "Zahl":
		if p.Ref {
			return "Zahlen Referenz"
		}
		return "Zahl"
	case "Text":
		if p.Ref {
			return "Text Referenz"
		}
		return "Text"
	case "ZL":
		if p.Ref {
			return "Zahlen Listen Referenz"
		}
		return "Zahlen Liste"
	}
	return "S"
}

func aliasSrc(f Fn, al []Item) string {
	var parts []string
	for _, it := range al {
		if it.Word != "" {
			parts = append(parts, it.Word)
		} else {
			parts = append(parts, "<"+f.Params[it.Param].Name+">")
		}
	}
	return strings.Join(parts, " ")
}

func aliasKey(f Fn, al []Item) string {
	var parts []string
	for _, it := range al {
		if it.Word != "" {
			parts = append(parts, it.Word)
		} else {
			p := f.Params[it.Param]
			ty := p.Type
			if ty == "S" {
				ty = "S@" + f.Mod
			}
			if p.Ref {
				ty = "&" + ty
			}
			parts = append(parts, "<"+ty+">")
		}
	}
	return strings.Join(parts, " ")
}

func fnSrc(f Fn, public bool) string {
	var sb strings.Builder
	pub := ""
	if public {
		pub = "öffentliche "
	}
	fmt.Fprintf(&sb, "Die %sFunktion %s ", pub, f.Name)
	switch len(f.Params) {
	case 0:
	case 1:
		fmt.Fprintf(&sb, "mit dem Parameter %s vom Typ %s, ", f.Params[0].Name, typeSrc(f.Params[0], false))
	default:
		var names, types []string
		for _, p := range f.Params {
			names = append(names, p.Name)
			types = append(types, typeSrc(p, false))
		}
		fmt.Fprintf(&sb, "mit den Parametern %s und %s vom Typ %s und %s, ", strings.Join(names[:len(names)-1], ", "), names[len(names)-1],
			strings.Join(types[:len(types)-1], ", "), types[len(types)-1])
	}
	sb.WriteString("gibt eine Zahl zurück, macht:\n\tGib 1 zurück.\nUnd kann so benutzt werden:\n")
	for i, al := range f.Aliases {
		sep := ""
		if i < len(f.Aliases)-1 {
			sep = " oder"
		}
		fmt.Fprintf(&sb, "\t\"%s\"%s\n", aliasSrc(f, al), sep)
	}
	sb.WriteString("\n")
	return sb.String()
}

type stmtInfo struct {
	first, last int // 1-based lines in main.ddp
	collides    []string
	what        string
}

type callInfo struct {
	varName string
	key     string
	owner   string // function name
}

// render builds the files and the model's expectations.
func render(spec ProgSpec) (files map[string]string, stmts []stmtInfo, calls []callInfo) {
	files = map[string]string{}
	byMod := map[string][]Fn{}
	for _, f := range spec.Fns {
		byMod[f.Mod] = append(byMod[f.Mod], f)
	}
	for _, m := range spec.Imports {
		var sb strings.Builder
		sb.WriteString("Wir nennen die öffentliche Kombination aus\n\tder öffentlichen Zahl x mit Standardwert 1,\neinen S, und erstellen sie so:\n\t\"ein S" + m + "\"\n\n")
		fmt.Fprintf(&sb, "Die öffentliche Funktion neu_%s gibt einen S zurück, macht:\n\tGib ein S%s zurück.\nUnd kann so benutzt werden:\n\t\"neu %s\"\n\n", m, m, m)
		for _, f := range byMod[m] {
			sb.WriteString(fnSrc(f, true))
		}
		files[m+".ddp"] = sb.String()
	}
	var sb strings.Builder
	line := 1
	emit := func(s string) (first, last int) {
		first = line
		sb.WriteString(s)
		line += strings.Count(s, "\n")
		return first, line - 1
	}
	scope := map[string]string{} // key -> owner function
	order := []string{}
	declare := func(f Fn) (coll []string) {
		for _, al := range f.Aliases {
			k := aliasKey(f, al)
			if _, ok := scope[k]; ok {
				coll = append(coll, k)
				continue
			}
			scope[k] = f.Name
			order = append(order, k)
		}
		return coll
	}
	for _, m := range spec.Imports {
		names := []string{"neu_" + m}
		for _, f := range byMod[m] {
			names = append(names, f.Name)
		}
		var list string
		if len(names) == 1 {
			list = names[0]
		} else {
			list = strings.Join(names[:len(names)-1], ", ") + " und " + names[len(names)-1]
		}
		first, last := emit(fmt.Sprintf("Binde %s aus \"%s\" ein.\n", list, m))
		var coll []string
		for _, f := range byMod[m] {
			coll = append(coll, declare(f)...)
		}
		stmts = append(stmts, stmtInfo{first, last, coll, "import " + m})
	}
	emit("Wir nennen die Kombination aus\n\tder Zahl x mit Standardwert 1,\neinen S, und erstellen sie so:\n\t\"ein Smain\"\n\n")
	for _, f := range byMod["main"] {
		first, last := emit(fnSrc(f, false))
		stmts = append(stmts, stmtInfo{first, last, declare(f), "function " + f.Name})
	}
	emit("Die Zahl vz ist 1.\nDer Text vt ist \"t\".\nDie Zahlen Liste vl ist eine leere Zahlen Liste.\nDer S vs ist ein Smain.\n")
	for i, k := range order {
		var parts []string
		for _, tk := range strings.Split(k, " ") {
			switch {
			case !strings.HasPrefix(tk, "<"):
				parts = append(parts, tk)
			// value parameters get non-assignable arguments, so that a Referenz twin of the same pattern cannot be meant
			case strings.Contains(tk, "Zahl"):
				if strings.Contains(tk, "&") {
					parts = append(parts, "vz")
				} else {
					parts = append(parts, "7")
				}
			case strings.Contains(tk, "Text"):
				if strings.Contains(tk, "&") {
					parts = append(parts, "vt")
				} else {
					parts = append(parts, "\"q\"")
				}
			case strings.Contains(tk, "ZL"):
				if strings.Contains(tk, "&") {
					parts = append(parts, "vl")
				} else {
					parts = append(parts, "(eine leere Zahlen Liste)")
				}
			case strings.Contains(tk, "S@main"):
				parts = append(parts, "vs")
			default:
				m := tk[strings.Index(tk, "@")+1 : len(tk)-1]
				parts = append(parts, "(neu "+m+")")
			}
		}
		v := fmt.Sprintf("r%d", i)
		emit(fmt.Sprintf("Die Zahl %s ist (%s).\n", v, strings.Join(parts, " ")))
		calls = append(calls, callInfo{v, k, scope[k]})
	}
	files["main.ddp"] = sb.String()
	return files, stmts, calls
}

func judgeProg(c ProgCase) (*vf.Failure, map[string]bool) {
	feats := map[string]bool{}
	files, stmts, calls := render(c.Spec)
	c.Files = files
	fail := func(sig, format string, a ...any) (*vf.Failure, map[string]bool) {
		return vf.NewFailure("C20:"+sig, fmt.Sprintf(format, a...)+"\n--- main.ddp\n"+files["main.ddp"], c), feats
	}
	res := fe.ParseFiles(files, "main.ddp")
	defer res.Cleanup()
	if res.Panic != "" || res.Err != "" {
		return fail("frontend-crash:"+res.PanicSite, "frontend did not return normally: panic=%q err=%q at %s", res.Panic, res.Err, res.PanicSite)
	}
	isAliasDiag := func(d fe.Diag) bool {
		return d.Code == int(ddperror.SEM_ALIAS_ALREADY_TAKEN) || d.Code == int(ddperror.SEM_ALIAS_ALREADY_DEFINED)
	}
	anyCollision := false
	for _, s := range stmts {
		if len(s.collides) == 0 {
			continue
		}
		anyCollision = true
		feats["collision"] = true
		found := false
		for _, d := range res.Errors() {
			if d.File == "main.ddp" && isAliasDiag(d) && int(d.SL) >= s.first && int(d.SL) <= s.last {
				found = true
			}
		}
		if !found {
			return fail("duplicate-accepted", "%s (lines %d-%d) redeclares alias(es) %q already in scope but no alias diagnostic points there; diagnostics: %v", s.what, s.first, s.last, s.collides, res.DiagStrings())
		}
	}
	if !anyCollision && len(res.Errors()) > 0 {
		return fail("spurious-error", "no alias collides, yet the frontend reports: %v", res.DiagStrings())
	}
	// (2) every accepted alias resolves to its own function
	if res.Module == nil {
		return fail("no-module", "no module returned")
	}
	decls := map[string]*ast.VarDecl{}
	for _, st := range res.Module.Ast.Statements {
		if ds, ok := st.(*ast.DeclStmt); ok {
			if vd, ok := ds.Decl.(*ast.VarDecl); ok {
				decls[vd.Name()] = vd
			}
		}
	}
	for _, cl := range calls {
		vd := decls[cl.varName]
		if vd == nil {
			return fail("declared-alias-not-callable", "call of alias %q (owner %s) did not produce declaration %s; diagnostics: %v", cl.key, cl.owner, cl.varName, res.DiagStrings())
		}
		e := vd.InitVal
		for {
			if g, ok := e.(*ast.Grouping); ok {
				e = g.Expr
				continue
			}
			break
		}
		fc, ok := e.(*ast.FuncCall)
		if !ok || fc.Func == nil {
			return fail("declared-alias-not-callable", "alias %q (owner %s): the call site did not parse as a function call (%T); diagnostics: %v", cl.key, cl.owner, e, res.DiagStrings())
		}
		if fc.Func.Name() != cl.owner {
			return fail("alias-resolves-to-other-function", "alias %q was declared by %s but the call resolves to %s (%s)", cl.key, cl.owner, fc.Func.Name(), filepath.Base(fc.Func.Mod.FileName))
		}
	}
	return nil, feats
}

var shapes = [][]string{ // W = word slot, P = parameter slot
	{"W", "P"}, {"W", "P", "W"}, {"W", "P", "W", "P"}, {"W", "P", "P"}, {"W", "W", "P"}, {"W"}, {"W", "W"},
}

func genSpec(t *rapid.T) ProgSpec {
	var spec ProgSpec
	mods := rapid.Permutation([]string{"a", "b", "c"}).Draw(t, "mods")
	spec.Imports = mods[:rapid.IntRange(1, 3).Draw(t, "nmods")]
	words := []string{"foo", "bar", "mit"}
	nf := rapid.IntRange(2, 7).Draw(t, "nfns")
	seenInMod := map[string]map[string]bool{}
	for i := 0; i < nf; i++ {
		f := Fn{Name: fmt.Sprintf("f%d", i)}
		f.Mod = rapid.SampledFrom(append([]string{"main"}, spec.Imports...)).Draw(t, "mod")
		np := rapid.IntRange(0, 2).Draw(t, "np")
		for j := 0; j < np; j++ {
			p := Param{Name: string(rune('a' + j)), Type: rapid.SampledFrom([]string{"Zahl", "S", "S", "Text", "ZL"}).Draw(t, "ptype")}
			if p.Type != "S" {
				p.Ref = rapid.IntRange(0, 4).Draw(t, "ref") == 0
			}
			f.Params = append(f.Params, p)
		}
		var fit [][]string
		for _, s := range shapes {
			if strings.Count(strings.Join(s, ""), "P") == np {
				fit = append(fit, s)
			}
		}
		na := rapid.IntRange(1, 2).Draw(t, "nal")
		if seenInMod[f.Mod] == nil {
			seenInMod[f.Mod] = map[string]bool{}
		}
		for a := 0; a < na; a++ {
			sh := rapid.SampledFrom(fit).Draw(t, "shape")
			perm := rapid.Permutation(seq(np)).Draw(t, "perm")
			var al []Item
			pi := 0
			for _, s := range sh {
				if s == "W" {
					al = append(al, Item{Word: rapid.SampledFrom(words).Draw(t, "w")})
				} else {
					al = append(al, Item{Param: perm[pi]})
					pi++
				}
			}
			k := aliasKey(f, al)
			if f.Mod != "main" && seenInMod[f.Mod][k] {
				continue // imported modules stay collision-free in themselves (their own diagnostics are not the subject)
			}
			dupInDecl := false
			for _, prev := range f.Aliases {
				dupInDecl = dupInDecl || aliasKey(f, prev) == k
			}
			if dupInDecl {
				// the same alias listed twice inside ONE declaration is not "already in scope" when it is
				// checked (aliases enter the scope when the declaration is complete) - outside the property
				continue
			}
			if k == "neu "+f.Mod || strings.HasPrefix(k, "neu ") || strings.HasPrefix(k, "ein ") {
				continue
			}
			// two aliases of the same function with the same key are also a collision; allowed only in main
			seenInMod[f.Mod][k] = true
			f.Aliases = append(f.Aliases, al)
		}
		if len(f.Aliases) == 0 {
			continue
		}
		spec.Fns = append(spec.Fns, f)
	}
	return spec
}

func seq(n int) []int {
	s := make([]int, n)
	for i := range s {
		s[i] = i
	}
	return s
}

func TestPrograms(t *testing.T) {
	defer vf.AfterCheck(t)
	vf.Checks(6000, 150000)
	rapid.Check(t, func(t *rapid.T) {
		spec := genSpec(t)
		if len(spec.Fns) == 0 {
			t.Skip("no functions")
		}
		c := ProgCase{Spec: spec}
		f, feats := judgeProg(c)
		if vf.Report(t, f) {
			return
		}
		// non-trivial: a collision, or >= 2 print-alike placeholder types among sibling aliases
		keys := map[string]bool{}
		alike := map[string]map[string]bool{}
		for _, fn := range spec.Fns {
			for _, al := range fn.Aliases {
				k := aliasKey(fn, al)
				keys[k] = true
				shape := strings.NewReplacer("S@a", "S", "S@b", "S", "S@c", "S", "S@main", "S").Replace(k)
				if alike[shape] == nil {
					alike[shape] = map[string]bool{}
				}
				alike[shape][k] = true
			}
		}
		printAlike := false
		for _, m := range alike {
			if len(m) >= 2 {
				printAlike = true
			}
		}
		nt := feats["collision"] || printAlike
		var fl []string
		if feats["collision"] {
			fl = append(fl, "prog:collision")
		}
		if printAlike {
			fl = append(fl, "prog:print-alike-siblings")
		}
		fl = append(fl, fmt.Sprintf("prog:modules=%d", len(spec.Imports)))
		b, _ := json.Marshal(spec)
		vf.Case("prog:"+string(b), nt, fl...)
		if nt {
			files, _, _ := render(spec)
			names := []string{}
			for n := range files {
				names = append(names, n)
			}
			sort.Strings(names)
			vf.Sample("program", map[string]any{"main.ddp": files["main.ddp"], "files": names})
		}
	})
}
