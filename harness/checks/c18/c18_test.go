// C18: foreign C functions see the published value representation.
//
// Generator: extern signatures (arity 0..6, parameters of every modelled type by value or Referenz, every
// modelled return type incl. nothing) with a generated C file that uses only the published headers: it
// prints every argument through the published structs, scribbles on its by-value arguments, overwrites
// Referenz arguments with fresh values and returns a constructed value. The DDP side calls it with boundary
// values (from globals or from locals of a function, from the declaring or an importing module, directly or
// through a DDP wrapper that forwards its own by-value parameter as Referenz) and prints result and variables.
// Oracle: a model of the transcript + the allocation ledger / AddressSanitizer (caller frees by-value
// arguments exactly once, owns the result, nothing leaks, no sanitizer report).
package c18

import (
	"encoding/json"
	"fmt"
	"os"
	"path/filepath"
	"sort"
	"strings"
	"testing"

	"pgregory.net/rapid"
	"verif/ddp"
	"verif/vf"
)

type Case struct {
	Files  map[string]string `json:"files"`
	Expect string            `json:"expect_stdout"`
	Level  int               `json:"level"`
	Desc   []string          `json:"desc,omitempty"`
}

// ---------------------------------------------------------------- types

type xtype struct {
	name     string // DDP spelling
	ref      string // spelling of the Referenz parameter
	art      string
	ret      string // "eine Zahl"
	cval     string // C parameter type by value
	cret     string // C return type ("" = through out-pointer)
	cstruct  string // pointee type for non-primitives
	prim     bool
	vals     []string // DDP literals
	shown    []string // how C prints vals[i] / DDP prints them
	fresh    string   // what C stores into a Referenz parameter (C statements, target *p or p)
	freshS   string   // its rendering
	retC     string   // C statements producing the return value (into *ret or "return ...")
	retS     string
	cprint   func(v string) string // C statement printing the value expression v (pointer for non-primitives)
	scribble func(v string) string
	ddpshow  func(v string) string // DDP statements printing variable v in the same rendering
}

func prim(name, ref, art, ret, ctype, format string, vals, shown []string, fresh, freshS, retv, retS, castfmt string) xtype {
	return xtype{name: name, ref: ref, art: art, ret: ret, cval: ctype, cret: ctype, prim: true, vals: vals, shown: shown,
		fresh: "*%s = " + fresh + ";", freshS: freshS, retC: "return " + retv + ";", retS: retS,
		cprint:   func(v string) string { return fmt.Sprintf("printf(\"%s\", (%s)%s);", format, castfmt, v) },
		scribble: func(v string) string { return v + " = 0;" },
		ddpshow:  nil}
}

var xtypes = []xtype{
	prim("Zahl", "Zahlen Referenz", "Die", "eine Zahl", "ddpint", "%lld", []string{"0", "(-1)", "9223372036854775807", "(-9223372036854775807)", "42"}, []string{"0", "-1", "9223372036854775807", "-9223372036854775807", "42"}, "-77", "-77", "1234567890123", "1234567890123", "long long"),
	prim("Kommazahl", "Kommazahlen Referenz", "Die", "eine Kommazahl", "ddpfloat", "%.3f", []string{"0,0", "2,5", "(-0,75)", "1024,125"}, []string{"0,000", "2,500", "-0,750", "1024,125"}, "6.25", "6,250", "-3.5", "-3,500", "double"),
	prim("Byte", "Byte Referenz", "Der", "einen Byte", "ddpbyte", "%u", []string{"(0 als Byte)", "(255 als Byte)", "(128 als Byte)"}, []string{"0", "255", "128"}, "200", "200", "129", "129", "unsigned"),
	prim("Wahrheitswert", "Wahrheitswert Referenz", "Der", "einen Wahrheitswert", "ddpbool", "%d", []string{"wahr", "falsch"}, []string{"1", "0"}, "true", "1", "true", "1", "int"),
	prim("Buchstabe", "Buchstaben Referenz", "Der", "einen Buchstaben", "ddpchar", "%d", []string{"'a'", "'ß'", "'€'", "'😀'"}, []string{"97", "223", "8364", "128512"}, "0x1D11E", "119070", "0x20AC", "8364", "int"),
	{name: "Text", ref: "Text Referenz", art: "Der", ret: "einen Text", cstruct: "ddpstring", vals: []string{"\"\"", "\"a\"", "\"äöü€\"", "\"ein längerer Text\""}, shown: []string{"[]", "[a]", "[äöü€]", "[ein längerer Text]"},
		fresh: "ddp_free_string(%s); ddp_string_from_constant(%s, \"neu aus C\");", freshS: "[neu aus C]",
		retC: "ddp_string_from_constant(ret, \"Ergebnis €\");", retS: "[Ergebnis €]",
		cprint: func(v string) string {
			return fmt.Sprintf("printf(\"[%%s]\", ddp_string_empty(%s) ? \"\" : %s->str);", v, v)
		},
		scribble: func(v string) string { return fmt.Sprintf("if (!ddp_string_empty(%s)) %s->str[0] = '#';", v, v) }},
	{name: "Zahlen Liste", ref: "Zahlen Listen Referenz", art: "Die", ret: "eine Zahlen Liste", cstruct: "ddpintlist", vals: []string{"eine leere Zahlen Liste", "eine Liste, die aus 1, 2, 3 besteht", "eine Liste, die aus (-5) besteht"}, shown: []string{"{}", "{1,2,3}", "{-5}"},
		fresh: "if (%s->len > 0) %s->arr[0] = 4242;", freshS: "",
		retC: "ret->arr = ddp_reallocate(NULL, 0, 2 * sizeof(ddpint)); ret->len = 2; ret->cap = 2; ret->arr[0] = 7; ret->arr[1] = -8;", retS: "{7,-8}",
		cprint: func(v string) string {
			return fmt.Sprintf("printf(\"{\"); for (ddpint i = 0; i < %s->len; i++) printf(i ? \",%%lld\" : \"%%lld\", (long long)%s->arr[i]); printf(\"}\");", v, v)
		},
		scribble: func(v string) string { return fmt.Sprintf("if (%s->len > 0) %s->arr[0] = -999;", v, v) }},
	{name: "Text Liste", ref: "Text Listen Referenz", art: "Die", ret: "eine Text Liste", cstruct: "ddpstringlist", vals: []string{"eine leere Text Liste", "eine Liste, die aus \"x\", \"\", \"äß\" besteht"}, shown: []string{"{}", "{[x],[],[äß]}"},
		fresh: "if (%s->len > 0) { ddp_free_string(&%s->arr[0]); ddp_string_from_constant(&%s->arr[0], \"C\"); }", freshS: "",
		retC: "ret->arr = ddp_reallocate(NULL, 0, 1 * sizeof(ddpstring)); ret->len = 1; ret->cap = 1; ddp_string_from_constant(&ret->arr[0], \"nur eins\");", retS: "{[nur eins]}",
		cprint: func(v string) string {
			return fmt.Sprintf("printf(\"{\"); for (ddpint i = 0; i < %s->len; i++) printf(i ? \",[%%s]\" : \"[%%s]\", ddp_string_empty(&%s->arr[i]) ? \"\" : %s->arr[i].str); printf(\"}\");", v, v, v)
		},
		scribble: func(v string) string {
			return fmt.Sprintf("if (%s->len > 0 && !ddp_string_empty(&%s->arr[0])) %s->arr[0].str[0] = '#';", v, v, v)
		}},
	{name: "Punkt", ref: "Punkt Referenz", art: "Der", ret: "einen Punkt", cstruct: "Punkt", vals: []string{"(ein Punkt mit 3 und \"drei\")", "(ein Punkt mit (-1) und \"\")"}, shown: []string{"(3,[drei])", "(-1,[])"},
		fresh: "%s->x = 555; ddp_free_string(&%s->name); ddp_string_from_constant(&%s->name, \"C war hier\");", freshS: "(555,[C war hier])",
		retC: "ret->x = 99; ddp_string_from_constant(&ret->name, \"neu\");", retS: "(99,[neu])",
		cprint: func(v string) string {
			return fmt.Sprintf("printf(\"(%%lld,[%%s])\", (long long)%s->x, ddp_string_empty(&%s->name) ? \"\" : %s->name.str);", v, v, v)
		},
		scribble: func(v string) string {
			return fmt.Sprintf("%s->x = -4; if (!ddp_string_empty(&%s->name)) %s->name.str[0] = '#';", v, v, v)
		}},
	{name: "Flach", ref: "Flach Referenz", art: "Der", ret: "einen Flach", cstruct: "Flach", vals: []string{"(ein Flach mit 10 und (200 als Byte) und 1,5)", "(ein Flach mit (-2) und (0 als Byte) und 0,0)"}, shown: []string{"(10,200,1,500)", "(-2,0,0,000)"},
		fresh: "%s->a = 31; %s->b = 32; %s->k = 33.0;", freshS: "(31,32,33,000)",
		retC: "ret->a = -6; ret->b = 6; ret->k = 0.5;", retS: "(-6,6,0,500)",
		cprint: func(v string) string {
			return fmt.Sprintf("printf(\"(%%lld,%%u,%%.3f)\", (long long)%s->a, (unsigned)%s->b, %s->k);", v, v, v)
		},
		scribble: func(v string) string { return fmt.Sprintf("%s->a = 111; %s->b = 1; %s->k = -9.0;", v, v, v) }},
	// a Variable is passed by pointer to {vtable, small value buffer / pointer}; the C side only reads it
	// (it has no access to the vtables it would need to store a value of another type). Never a return type.
	{name: "Variable", ref: "Variablen Referenz", art: "Die", ret: "eine Variable", cstruct: "ddpany", vals: []string{"5", "\"txt\"", "(-9223372036854775807)"}, shown: []string{"<5>", "<[txt]>", "<-9223372036854775807>"},
		fresh: ";", freshS: "", retC: "", retS: "",
		cprint: func(v string) string {
			return fmt.Sprintf("if (%s->vtable_ptr->type_size == sizeof(ddpint)) printf(\"<%%lld>\", (long long)*(ddpint *)(DDP_ANY_VALUE_PTR(%s))); else printf(\"<[%%s]>\", ((ddpstring *)(DDP_ANY_VALUE_PTR(%s)))->str);", v, v, v)
		},
		scribble: func(v string) string { return ";" }},
}

// the rendering of a Referenz argument of list type after the call depends on its value before
func afterRef(t xtype, vi int) string {
	switch t.name {
	case "Zahlen Liste":
		return []string{"{}", "{4242,2,3}", "{4242}"}[vi]
	case "Text Liste":
		return []string{"{}", "{[C],[],[äß]}"}[vi]
	case "Variable":
		return t.shown[vi]
	}
	return t.freshS
}

const ddpDecls = `Wir nennen die %[1]sKombination aus
	der %[2]sZahl x mit Standardwert 0,
	dem %[2]sText name mit Standardwert "",
einen Punkt, und erstellen sie so:
	"ein Punkt mit <x> und <name>"

Wir nennen die %[1]sKombination aus
	der %[2]sZahl a mit Standardwert 0,
	dem %[2]sByte b mit Standardwert (0 als Byte),
	der %[2]sKommazahl k mit Standardwert 0,0,
einen Flach, und erstellen sie so:
	"ein Flach mit <a> und <b> und <k>"

`

const cHeader = `#include "DDP/ddpmemory.h"
#include "DDP/ddptypes.h"
#include <stdbool.h>
#include <stdio.h>

typedef struct { ddpint x; ddpstring name; } Punkt;
typedef struct { ddpint a; ddpbyte b; ddpfloat k; } Flach;

`

// printing functions on the DDP side that render values exactly like the C side
const ddpShow = `Die Funktion zeige_z mit dem Parameter v vom Typ Zahl, gibt nichts zurück, macht:
	Schreibe v.
Und kann so benutzt werden:
	"zeige <v>"

Die Funktion zeige_k mit dem Parameter v vom Typ Kommazahl, gibt nichts zurück, macht:
	Die Zahl tausendstel ist (((der Betrag von v) mal 1000,0) als Zahl).
	Wenn v kleiner als 0,0 ist, Schreibe "-".
	Schreibe ((tausendstel durch 1000) als Zahl).
	Schreibe ",".
	Die Zahl rest ist tausendstel modulo 1000.
	Wenn rest kleiner als 100 ist, Schreibe "0".
	Wenn rest kleiner als 10 ist, Schreibe "0".
	Schreibe rest.
Und kann so benutzt werden:
	"zeige <v>"

Die Funktion zeige_b mit dem Parameter v vom Typ Byte, gibt nichts zurück, macht:
	Schreibe (v als Zahl).
Und kann so benutzt werden:
	"zeige <v>"

Die Funktion zeige_w mit dem Parameter v vom Typ Wahrheitswert, gibt nichts zurück, macht:
	Wenn v, Schreibe 1.
	Sonst Schreibe 0.
Und kann so benutzt werden:
	"zeige <v>"

Die Funktion zeige_c mit dem Parameter v vom Typ Buchstabe, gibt nichts zurück, macht:
	Schreibe (v als Zahl).
Und kann so benutzt werden:
	"zeige <v>"

Die Funktion zeige_t mit dem Parameter v vom Typ Text, gibt nichts zurück, macht:
	Schreibe "[".
	Schreibe v.
	Schreibe "]".
Und kann so benutzt werden:
	"zeige <v>"

Die Funktion zeige_zl mit dem Parameter v vom Typ Zahlen Liste, gibt nichts zurück, macht:
	Schreibe "{".
	Für jede Zahl i von 1 bis (die Länge von v), mache:
		Wenn i größer als 1 ist, Schreibe ",".
		Schreibe (v an der Stelle i).
	Schreibe "}".
Und kann so benutzt werden:
	"zeige <v>"

Die Funktion zeige_tl mit dem Parameter v vom Typ Text Liste, gibt nichts zurück, macht:
	Schreibe "{".
	Für jede Zahl i von 1 bis (die Länge von v), mache:
		Wenn i größer als 1 ist, Schreibe ",".
		zeige (v an der Stelle i).
	Schreibe "}".
Und kann so benutzt werden:
	"zeige <v>"

Die Funktion zeige_p mit dem Parameter v vom Typ Punkt, gibt nichts zurück, macht:
	Schreibe "(".
	Schreibe (x von v).
	Schreibe ",".
	zeige (name von v).
	Schreibe ")".
Und kann so benutzt werden:
	"zeige <v>"

Die Funktion zeige_v mit dem Parameter v vom Typ Variable, gibt nichts zurück, macht:
	Schreibe "<".
	Wenn v eine Zahl ist, Schreibe (v als Zahl).
	Sonst zeige (v als Text).
	Schreibe ">".
Und kann so benutzt werden:
	"zeige <v>"

Die Funktion zeige_f mit dem Parameter v vom Typ Flach, gibt nichts zurück, macht:
	Schreibe "(".
	Schreibe (a von v).
	Schreibe ",".
	zeige (b von v).
	Schreibe ",".
	zeige (k von v).
	Schreibe ")".
Und kann so benutzt werden:
	"zeige <v>"

`

type param struct {
	t   int
	ref bool
	vi  int
}

type sig struct {
	params  []param
	ret     int // -1 = nichts
	wrapper bool
}

func generate(t *rapid.T) Case {
	nf := rapid.IntRange(1, 4).Draw(t, "functions")
	split := rapid.IntRange(0, 2).Draw(t, "importing-module") == 0
	locals := rapid.Bool().Draw(t, "locals")
	level := rapid.SampledFrom([]int{0, 1, 2, 2}).Draw(t, "level")
	var sigs []sig
	for k := 0; k < nf; k++ {
		var s sig
		for n := rapid.IntRange(0, 6).Draw(t, "arity"); n > 0; n-- {
			ti := rapid.IntRange(0, len(xtypes)-1).Draw(t, "ptype")
			s.params = append(s.params, param{t: ti, ref: rapid.IntRange(0, 2).Draw(t, "ref") == 0, vi: rapid.IntRange(0, len(xtypes[ti].vals)-1).Draw(t, "val")})
		}
		s.ret = rapid.IntRange(-1, len(xtypes)-2).Draw(t, "ret") // not the Variable
		// a DDP wrapper with a by-value parameter that it forwards as Referenz (needs a non-primitive Referenz parameter)
		for _, p := range s.params {
			if p.ref && !xtypes[p.t].prim && rapid.Bool().Draw(t, "wrapper") {
				s.wrapper = true
			}
		}
		sigs = append(sigs, s)
	}
	pub, pubf := "", ""
	if split {
		pub, pubf = "öffentliche ", "öffentlichen "
	}
	var cfile, decls, body, out strings.Builder
	cfile.WriteString(cHeader)
	fmt.Fprintf(&decls, ddpDecls, pub, pubf)
	var desc []string
	for k, s := range sigs {
		// ---- C side
		var cparams, prints, after []string
		retT := xtype{}
		if s.ret >= 0 {
			retT = xtypes[s.ret]
		}
		if s.ret >= 0 && !retT.prim {
			cparams = append(cparams, retT.cstruct+" *ret")
		}
		var cexp strings.Builder
		fmt.Fprintf(&cexp, "C%d:", k)
		for i, p := range s.params {
			pt := xtypes[p.t]
			pn := fmt.Sprintf("p%d", i)
			switch {
			case pt.prim && !p.ref:
				cparams = append(cparams, pt.cval+" "+pn)
				prints = append(prints, pt.cprint(pn))
				after = append(after, pt.scribble(pn))
			case pt.prim && p.ref:
				cparams = append(cparams, pt.cval+" *"+pn)
				prints = append(prints, pt.cprint("*"+pn))
				after = append(after, fmt.Sprintf(pt.fresh, pn))
			case !p.ref:
				cparams = append(cparams, pt.cstruct+" *"+pn)
				prints = append(prints, pt.cprint(pn))
				after = append(after, pt.scribble(pn))
			default:
				cparams = append(cparams, pt.cstruct+" *"+pn)
				prints = append(prints, pt.cprint(pn))
				after = append(after, strings.ReplaceAll(pt.fresh, "%s", pn))
			}
			cexp.WriteString(" " + pt.shown[p.vi])
		}
		cexp.WriteString("\n")
		crt := "void"
		if s.ret >= 0 && retT.prim {
			crt = retT.cret
		}
		if len(cparams) == 0 {
			cparams = []string{"void"}
		}
		fmt.Fprintf(&cfile, "%s c18_f%d(%s) {\n\tprintf(\"C%d:\");\n", crt, k, strings.Join(cparams, ", "), k)
		for _, p := range prints {
			fmt.Fprintf(&cfile, "\tprintf(\" \"); %s\n", p)
		}
		cfile.WriteString("\tprintf(\"\\n\");\n")
		for _, a := range after {
			fmt.Fprintf(&cfile, "\t%s\n", a)
		}
		cfile.WriteString("\tfflush(stdout);\n")
		if s.ret >= 0 {
			fmt.Fprintf(&cfile, "\t%s\n", retT.retC)
		}
		cfile.WriteString("}\n\n")

		// ---- DDP declaration
		var names, types, alias []string
		for i, p := range s.params {
			names = append(names, fmt.Sprintf("p%d", i))
			if p.ref {
				types = append(types, xtypes[p.t].ref)
			} else {
				types = append(types, xtypes[p.t].name)
			}
			alias = append(alias, fmt.Sprintf("<p%d>", i))
		}
		head := fmt.Sprintf("Die %sFunktion c18_f%d ", pub, k)
		switch len(names) {
		case 0:
		case 1:
			head += fmt.Sprintf("mit dem Parameter %s vom Typ %s, ", names[0], types[0])
		default:
			n := len(names)
			head += fmt.Sprintf("mit den Parametern %s und %s vom Typ %s und %s, ", strings.Join(names[:n-1], ", "), names[n-1], strings.Join(types[:n-1], ", "), types[n-1])
		}
		rs := "nichts"
		if s.ret >= 0 {
			rs = retT.ret
		}
		al := fmt.Sprintf("rufe f%d", k)
		if len(alias) > 0 {
			al += " mit " + strings.Join(alias, " und ")
		}
		al += " auf"
		fmt.Fprintf(&decls, "%sgibt %s zurück,\nist in \"ext.c\" definiert\nund kann so benutzt werden:\n\t\"%s\"\n\n", head, rs, al)

		// ---- call site
		fmt.Fprintf(&body, "Schreibe \"-- f%d\" auf eine Zeile.\n", k)
		fmt.Fprintf(&out, "-- f%d\n", k)
		var args []string
		for i, p := range s.params {
			vn := fmt.Sprintf("v%d_%d", k, i)
			pt := xtypes[p.t]
			fmt.Fprintf(&body, "%s %s %s ist %s.\n", pt.art, pt.name, vn, pt.vals[p.vi])
			args = append(args, vn)
		}
		call := fmt.Sprintf("rufe f%d", k)
		if len(args) > 0 {
			call += " mit " + strings.Join(args, " und ")
		}
		call += " auf"
		if s.ret >= 0 {
			fmt.Fprintf(&body, "%s %s erg%d ist %s.\nzeige erg%d.\nSchreibe \"\" auf eine Zeile.\n", retT.art, retT.name, k, call, k)
		} else {
			body.WriteString(call + ".\n")
		}
		out.WriteString(cexp.String())
		if s.ret >= 0 {
			out.WriteString(retT.retS + "\n")
		}
		for i, p := range s.params {
			pt := xtypes[p.t]
			fmt.Fprintf(&body, "zeige v%d_%d.\nSchreibe \" \".\n", k, i)
			if p.ref {
				out.WriteString(afterRef(pt, p.vi) + " ")
			} else {
				out.WriteString(pt.shown[p.vi] + " ") // by value: the caller's variable is untouched
			}
		}
		body.WriteString("Schreibe \"\" auf eine Zeile.\n")
		out.WriteString("\n")
		if s.ret >= 0 && !retT.prim || func() bool {
			for _, p := range s.params {
				if !xtypes[p.t].prim || p.ref {
					return true
				}
			}
			return false
		}() {
			desc = append(desc, "nontrivial-signature")
		}
		desc = append(desc, fmt.Sprintf("arity:%d", len(s.params)))
		// ---- wrapper: a DDP function takes the values by value and forwards them (Referenz parameters get its own copies)
		if s.wrapper {
			var wn, wt, wal []string
			for i, p := range s.params {
				wn = append(wn, fmt.Sprintf("w%d", i))
				wt = append(wt, xtypes[p.t].name)
				wal = append(wal, fmt.Sprintf("<w%d>", i))
			}
			whead := fmt.Sprintf("Die %sFunktion huelle%d mit den Parametern %s und %s vom Typ %s und %s, ", pub, k, strings.Join(wn[:len(wn)-1], ", "), wn[len(wn)-1], strings.Join(wt[:len(wt)-1], ", "), wt[len(wt)-1])
			if len(wn) == 1 {
				whead = fmt.Sprintf("Die %sFunktion huelle%d mit dem Parameter %s vom Typ %s, ", pub, k, wn[0], wt[0])
			}
			wcall := fmt.Sprintf("rufe f%d mit %s auf", k, strings.Join(wn, " und "))
			wbody := "\t" + wcall + ".\n"
			if s.ret >= 0 {
				wbody = fmt.Sprintf("\t%s %s ergebnis ist %s.\n", retT.art, retT.name, wcall)
			}
			fmt.Fprintf(&decls, "%sgibt nichts zurück, macht:\n%sUnd kann so benutzt werden:\n\t\"umhuelle f%d mit %s\"\n\n", whead, wbody, k, strings.Join(wal, " und "))
			fmt.Fprintf(&body, "Schreibe \"-- huelle%d\" auf eine Zeile.\n", k)
			fmt.Fprintf(&out, "-- huelle%d\n", k)
			var wargs []string
			for i, p := range s.params {
				vn := fmt.Sprintf("h%d_%d", k, i)
				pt := xtypes[p.t]
				fmt.Fprintf(&body, "%s %s %s ist %s.\n", pt.art, pt.name, vn, pt.vals[p.vi])
				wargs = append(wargs, vn)
			}
			fmt.Fprintf(&body, "umhuelle f%d mit %s.\n", k, strings.Join(wargs, " und "))
			out.WriteString(cexp.String())
			for i, p := range s.params {
				fmt.Fprintf(&body, "zeige h%d_%d.\nSchreibe \" \".\n", k, i)
				out.WriteString(xtypes[p.t].shown[p.vi] + " ") // everything was passed to the wrapper by value
			}
			body.WriteString("Schreibe \"\" auf eine Zeile.\n")
			out.WriteString("\n")
			desc = append(desc, "wrapper-forwards-value-parameter-as-Referenz")
		}
	}
	bodyS := body.String()
	if locals {
		var ind strings.Builder
		for _, l := range strings.Split(strings.TrimRight(bodyS, "\n"), "\n") {
			ind.WriteString("\t" + l + "\n")
		}
		bodyS = "Die Funktion hauptteil gibt nichts zurück, macht:\n" + ind.String() + "Und kann so benutzt werden:\n\t\"starte den hauptteil\"\n\nstarte den hauptteil.\n"
		desc = append(desc, "caller-variables-are-locals")
	}
	files := map[string]string{"ext.c": cfile.String()}
	if split {
		files["lib.ddp"] = "Binde \"Duden/Ausgabe\" ein.\n\n" + decls.String()
		files["main.ddp"] = "Binde \"Duden/Ausgabe\" ein.\nBinde \"lib\" ein.\n\n" + ddpShow + bodyS
		desc = append(desc, "called-from-importing-module")
	} else {
		files["main.ddp"] = "Binde \"Duden/Ausgabe\" ein.\n\n" + decls.String() + ddpShow + bodyS
	}
	sort.Strings(desc)
	return Case{Files: files, Expect: out.String(), Level: level, Desc: desc}
}

// ---------------------------------------------------------------- judge

func dump(files map[string]string) string {
	var names []string
	for n := range files {
		names = append(names, n)
	}
	sort.Strings(names)
	var sb strings.Builder
	for _, n := range names {
		fmt.Fprintf(&sb, "--- %s\n%s", n, files[n])
	}
	return sb.String()
}

func firstDiff(a, b string) string {
	al, bl := strings.Split(a, "\n"), strings.Split(b, "\n")
	for k := 0; k < len(al) || k < len(bl); k++ {
		var x, y string
		if k < len(al) {
			x = al[k]
		}
		if k < len(bl) {
			y = bl[k]
		}
		if x != y {
			return fmt.Sprintf("output line %d: expected %q, got %q", k+1, x, y)
		}
	}
	return "no difference"
}

func judge(c Case) (*vf.Failure, string) {
	dir := ddp.TempDir("verif-c18-")
	defer os.RemoveAll(dir)
	ddp.WriteFiles(dir, c.Files)
	// the C file against the sanitizer build of the runtime, with the allocation ledger
	obj := filepath.Join(dir, "main.o")
	cr := ddp.Compile(dir, "main.ddp", obj, "-O", fmt.Sprint(c.Level))
	if cr.TimedOut {
		return nil, "inconclusive-build-timeout"
	}
	if cr.Exit != 0 {
		return nil, "driver-does-not-build(generator): " + ddp.Trunc(cr.Stderr+cr.Stdout, 600)
	}
	cc := ddp.Run(dir, 120e9, "gcc", "-c", "-O1", "-g", "-fsanitize=address,undefined", "-fno-sanitize=nonnull-attribute", "-I"+filepath.Join(vf.Repo(), "lib/runtime/include"), "-o", filepath.Join(dir, "ext.o"), "ext.c")
	if cc.Exit != 0 || cc.TimedOut {
		return nil, "c-file-does-not-compile(generator): " + ddp.Trunc(cc.Stderr, 600)
	}
	exe := filepath.Join(dir, "main")
	lr := ddp.LinkObject(dir, obj, exe, true, false, filepath.Join(dir, "ext.o"), filepath.Join(ddp.Work, "obj/memledger.o"), "-Wl,--wrap=ddp_reallocate")
	if lr.TimedOut {
		return nil, "inconclusive-link-timeout"
	}
	if lr.Exit != 0 {
		return vf.NewFailure("C18:link", fmt.Sprintf("-O %d: the object does not link against the C file (symbol name / signature):\n%s\n%s", c.Level, ddp.Trunc(lr.Stderr, 1500), dump(c.Files)), c), "violation"
	}
	r, st := ddp.ExecChecked(dir, exe)
	if r.TimedOut {
		return nil, "inconclusive-run-timeout"
	}
	switch {
	case ddp.IsLedgerReport(r):
		return vf.NewFailure("C18:ledger", fmt.Sprintf("-O %d: allocation ledger: %s\nledger: %d allocations, %d frees, %d live\n%s", c.Level, ddp.Trunc(r.Stderr, 1500), st[0], st[1], st[2], dump(c.Files)), c), "violation"
	case ddp.IsSanitizerReport(r):
		return vf.NewFailure("C18:sanitizer", fmt.Sprintf("-O %d: %s\n%s", c.Level, ddp.Trunc(r.Stderr, 2000), dump(c.Files)), c), "violation"
	case r.Exit != 0 || r.Signal != "":
		return vf.NewFailure("C18:run", fmt.Sprintf("-O %d: %s\nstderr: %s\n%s", c.Level, r.String(), ddp.Trunc(r.Stderr, 800), dump(c.Files)), c), "violation"
	case r.Stdout != c.Expect:
		return vf.NewFailure("C18:transcript", fmt.Sprintf("-O %d: %s\n--- expected\n%s--- got\n%s\n%s", c.Level, firstDiff(c.Expect, r.Stdout), c.Expect, ddp.Trunc(r.Stdout, 2000), dump(c.Files)), c), "violation"
	}
	return nil, "ok"
}

func TestMain(m *testing.M) {
	vf.Main(m, vf.Def{
		ID:    "C18",
		Level: "exploration",
		Rule: "generated projects of 1-4 extern functions with arity 0..6 over {Zahl, Kommazahl, Byte, Wahrheitswert, Buchstabe, Text, Zahlen Liste, Text Liste, a Kombination with a Text field, a Kombination of primitives only, Variable (holding a Zahl or a Text; read only)}, each parameter by value or Referenz, every return type incl. nothing; the generated C file (published headers only) prints every argument through the published structs, scribbles on by-value arguments, overwrites Referenz arguments with fresh values and returns a constructed value; the DDP side calls with boundary values (64-bit extremes, 0/255, 1-4 byte characters, empty and non-empty texts and lists) from globals or from locals of a function, from the declaring or an importing module, directly and through a DDP wrapper that forwards its own by-value parameters (as Referenz where the extern function wants one); " +
			"oracle: model of the transcript (C sees exactly the values; by-value variables of the caller are unchanged; Referenz variables show exactly the fresh values; the result is the constructed value) + allocation ledger on ddp_reallocate and AddressSanitizer/LeakSanitizer over runtime, stdlib and the C file (caller releases by-value arguments once, owns the result, nothing leaks); object built by the real kddp at a drawn -O level and linked by gcc; " +
			"non-trivial = signature with a non-primitive or Referenz parameter or a non-primitive result; distinct by file set",
		Assumptions: []string{"Variable parameters are read by the C callee (holding a Zahl or a Text) but never written or returned", "the C callee may write into by-value arguments it received (they are copies the caller releases) as long as it keeps them releasable"},
		Judge: func(raw json.RawMessage) *vf.Failure {
			var c Case
			if err := json.Unmarshal(raw, &c); err != nil {
				return vf.NewFailure("harness:bad-case", err.Error(), nil)
			}
			f, _ := judge(c)
			return f
		},
	})
}

func TestExternCalls(t *testing.T) {
	defer vf.AfterCheck(t)
	vf.Checks(200, 5000)
	rapid.Check(t, func(t *rapid.T) {
		c := generate(t)
		nt := false
		for _, d := range c.Desc {
			if d == "nontrivial-signature" {
				nt = true
			}
		}
		vf.Case(dump(c.Files), nt, c.Desc...)
		f, outcome := judge(c)
		if vf.Report(t, f) {
			return
		}
		if outcome != "ok" {
			key := outcome
			if p := strings.Index(key, ":"); p > 0 {
				key = key[:p]
			}
			vf.Count(key)
			vf.Sample(key, map[string]any{"why": outcome, "files": c.Files})
			t.Logf("not judged: %s", ddp.Trunc(outcome, 700))
			return
		}
		vf.Sample("ok", map[string]any{"desc": c.Desc})
	})
}
