// C07 — failure is reported faithfully: flag, exit status and source ranges.
package c07

import (
	"encoding/json"
	"fmt"
	"os"
	"os/exec"
	"path/filepath"
	"strings"
	"testing"
	"time"

	"pgregory.net/rapid"

	"verif/fw"
	"verif/mut"
	"verif/vf"
)

type Case struct {
	Kind   string            `json:"kind"`
	Main   string            `json:"main"`
	Source []byte            `json:"source,omitempty"`
	Text   string            `json:"source_text,omitempty"`
	Files  map[string]string `json:"files,omitempty"`
	Desc   []string          `json:"desc,omitempty"`
	CLI    bool              `json:"cli,omitempty"`
}

var worker = &fw.Worker{}

func TestMain(m *testing.M) {
	fw.ServeIfWorker()
	vf.Main(m, vf.Def{
		ID:    "C07",
		Level: "exploration",
		Rule: "inputs: near-valid mutants of the repository's DDP programs, token soup, statement skeletons, import arrangements (errors inside imported modules), and dedicated shapes (valid programs, warning-only programs, forward declaration without definition, error inside an alias string / a generic instantiation / at the first or last token, files with and without final line break, CRLF); " +
			"oracle over every delivered diagnostic and the result: (1) module.Ast.Faulty <=> at least one error-level diagnostic was delivered (warnings alone never); (2) every diagnostic names a readable file and a range inside that file's text (1<=line<=#lines, 1<=column<=len+1 in code points, start<=end); (3) ddperror.MakeAdvancedHandler renders it without panicking; (4) on a sample the kddp CLI exits non-zero <=> faulty and leaves no executable on failure; " +
			"non-trivial = at least one diagnostic was delivered; distinct by input hash",
		Assumptions: []string{
			"inputs on which parser.Parse panics or returns an error value are C03's subject and are skipped here (counted)",
			"CLI runs that end in an internal compiler error after an accepted frontend run are C02's subject and are skipped (counted)",
		},
		Judge: func(raw json.RawMessage) *vf.Failure {
			var c Case
			if err := json.Unmarshal(raw, &c); err != nil {
				return vf.NewFailure("harness:bad-case", err.Error(), nil)
			}
			f, _ := judge(c)
			return f
		},
	})
}

func judge(c Case) (*vf.Failure, *fw.Run) {
	if c.Source != nil {
		c.Text = string(c.Source)
	}
	resp, crash := worker.Call(fw.Request{Main: c.Main, Source: c.Source, Files: c.Files}, 60*time.Second)
	if crash != nil {
		vf.Count("skipped:frontend-crash(C03)")
		return nil, nil
	}
	run := resp.Runs[0]
	if run.Panic != "" || run.Err != "" || !run.HasModule {
		vf.Count("skipped:parse-did-not-return-a-module(C03)")
		return nil, &run
	}
	fail := func(sig, format string, a ...any) (*vf.Failure, *fw.Run) {
		var ds []string
		for _, d := range run.Diags {
			ds = append(ds, d.String())
		}
		return vf.NewFailure("C07:"+sig, fmt.Sprintf("%s (%s): ", c.Kind, strings.Join(c.Desc, " "))+fmt.Sprintf(format, a...)+"\ndiagnostics:\n  "+strings.Join(ds, "\n  "), c), &run
	}
	nerr := run.Errors()
	if nerr > 0 && !run.Faulty {
		return fail("error-delivered-but-not-faulty", "%d error-level diagnostic(s) delivered but Module.Ast.Faulty == false", nerr)
	}
	if nerr == 0 && run.Faulty {
		return fail("faulty-without-error-diagnostic", "Module.Ast.Faulty == true although no error-level diagnostic was delivered (%d warnings)", len(run.Diags))
	}
	for _, d := range run.Diags {
		if !d.RangeOK {
			site := fmt.Sprintf("code%04d", d.Code)
			return fail("range-outside-file:"+site, "diagnostic %s: %s", d.String(), d.RangeWhy)
		}
		if d.RenderPanic != "" {
			return fail("renderer-panics", "excerpt renderer panics on diagnostic %s: %s", d.String(), d.RenderPanic)
		}
	}
	if c.CLI {
		if f := judgeCLI(c, run); f != nil {
			return f, &run
		}
	}
	return nil, &run
}

func judgeCLI(c Case, run fw.Run) *vf.Failure {
	work := vf.WorkDir()
	if work == "" {
		return nil
	}
	dir, err := os.MkdirTemp("", "verif-c07-")
	if err != nil {
		return nil
	}
	defer os.RemoveAll(dir)
	dir = filepath.Join(dir, "a", "w")
	os.MkdirAll(dir, 0o755)
	main := "main.ddp"
	if c.Files != nil {
		for n, s := range c.Files {
			p := filepath.Join(dir, n)
			if strings.HasSuffix(n, "/") {
				os.MkdirAll(p, 0o755)
				continue
			}
			os.MkdirAll(filepath.Dir(p), 0o755)
			os.WriteFile(p, []byte(s), 0o644)
		}
		main = c.Main
	} else if filepath.IsAbs(c.Main) {
		return nil // mutants parsed under their repository path are not copied
	} else {
		os.WriteFile(filepath.Join(dir, main), c.Source, 0o644)
	}
	exe := filepath.Join(dir, "out_exe")
	cmd := exec.Command(filepath.Join(work, "ddp/bin/kddp"), "kompiliere", main, "-o", exe)
	cmd.Dir = dir
	cmd.Env = append(os.Environ(), "DDPPATH="+filepath.Join(work, "ddp"))
	var out strings.Builder
	cmd.Stdout, cmd.Stderr = &out, &out
	done := make(chan error, 1)
	if err := cmd.Start(); err != nil {
		return nil
	}
	go func() { done <- cmd.Wait() }()
	select {
	case <-done:
	case <-time.After(120 * time.Second):
		cmd.Process.Kill()
		vf.Count("cli:timeout(inconclusive)")
		return nil
	}
	code := cmd.ProcessState.ExitCode()
	o := out.String()
	if strings.Contains(o, "Unerwarteter Fehler") || strings.Contains(o, "Fehler beim Kompilieren: CompilerError") || strings.Contains(o, "could not parse llvm ir") || strings.Contains(o, "Fehler beim Linken") {
		if !run.Faulty {
			vf.Count("skipped:cli-internal-error-after-accepted-frontend(C02)")
			return nil
		}
	}
	_, statErr := os.Stat(exe)
	exists := statErr == nil
	vf.Count("cli:runs")
	mk := func(sig, msg string) *vf.Failure {
		if len(o) > 1500 {
			o = o[:1500]
		}
		return vf.NewFailure("C07:cli:"+sig, fmt.Sprintf("%s (%s): %s (exit status %d, executable exists: %v, frontend faulty: %v)\nkddp output:\n%s", c.Kind, strings.Join(c.Desc, " "), msg, code, exists, run.Faulty, o), c)
	}
	switch {
	case run.Faulty && code == 0:
		return mk("faulty-but-exit-0", "the compilation failed (error diagnostics) but kddp exits 0")
	case run.Faulty && exists:
		return mk("faulty-but-executable", "the compilation failed but an executable was produced")
	case !run.Faulty && code != 0:
		return mk("accepted-but-exit-nonzero", "no error diagnostic, yet kddp exits non-zero")
	case !run.Faulty && !exists:
		return mk("accepted-but-no-executable", "kddp exits 0 but produced no executable")
	}
	return nil
}

var corpus *mut.Corpus

func getCorpus() *mut.Corpus {
	if corpus == nil {
		corpus = mut.LoadCorpus(vf.Repo())
	}
	return corpus
}

func genCase(t *rapid.T) Case {
	switch k := rapid.IntRange(0, 13).Draw(t, "generator"); {
	case k == 0:
		return Case{Kind: "soup", Main: "soup.ddp", Source: mut.GenTokenSoup(t)}
	case k <= 2:
		return Case{Kind: "skeleton", Main: "skel.ddp", Source: mut.GenSkeleton(t)}
	case k <= 4:
		files, main, desc := mut.GenImportArrangement(t)
		return Case{Kind: "imports", Main: main, Files: files, Desc: desc}
	case k <= 8:
		files, main, desc := mut.GenDiagShapes(t)
		return Case{Kind: "shapes", Main: main, Files: files, Desc: desc}
	default:
		path, src, desc := getCorpus().NearValid(t)
		return Case{Kind: "nearvalid", Main: path, Source: src, Desc: desc}
	}
}

func TestDiagnosticsFaithful(t *testing.T) {
	defer vf.AfterCheck(t)
	defer worker.Close()
	vf.Checks(24000, 1000000)
	cliBudget := vf.Pick(40, 500) // per shard
	rapid.Check(t, func(t *rapid.T) {
		c := genCase(t)
		if len(c.Source) > 16<<10 {
			c.Source = c.Source[:16<<10]
		}
		if cliBudget > 0 && (c.Kind == "shapes" || c.Kind == "imports" || c.Kind == "skeleton") && rapid.IntRange(0, 9).Draw(t, "cli") == 0 {
			c.CLI = true
			cliBudget--
		}
		f, run := judge(c)
		if vf.Report(t, f) {
			return
		}
		if run == nil || !run.HasModule {
			return
		}
		key := c.Kind + "\x00" + string(c.Source)
		for n, s := range c.Files {
			key += "\x00" + n + "\x00" + s
		}
		nt := len(run.Diags) > 0
		outcome := "accepted"
		warn := false
		for _, d := range run.Diags {
			if !d.IsError() {
				warn = true
			}
		}
		switch {
		case run.Errors() > 0:
			outcome = "errors"
		case warn:
			outcome = "warnings-only"
		}
		feats := []string{"gen:" + c.Kind, "outcome:" + outcome}
		imported := false
		for _, d := range run.Diags {
			if filepath.Base(d.File) != filepath.Base(c.Main) {
				imported = true
			}
		}
		if imported {
			feats = append(feats, "diag-in-imported-module")
		}
		if c.CLI {
			feats = append(feats, "cli")
		}
		vf.Case(key, nt, feats...)
		if nt {
			var ds []string
			for _, d := range run.Diags {
				ds = append(ds, d.String())
			}
			s := map[string]any{"kind": c.Kind, "desc": c.Desc, "faulty": run.Faulty, "diagnostics": ds}
			if c.Files != nil {
				s["files"] = c.Files
			} else {
				txt := string(c.Source)
				if len(txt) > 500 {
					txt = txt[:500] + "…"
				}
				s["source"] = txt
			}
			vf.Sample(c.Kind+":"+outcome, s)
		}
	})
}
