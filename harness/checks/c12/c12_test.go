// C12: a Text is a sequence of Unicode code points.
//
// Layer 1 (TestHistories): rapid-generated operation histories on a pool of texts, executed by csrc/rt_driver.c
// against the real runtime (AddressSanitizer build); model = []rune per pool entry; after every step the
// observable state of the touched entry (length, every index, decoding as the for-each loop does, bytes,
// equality with every other entry) must agree with the model.
// Layer 2 (TestAllScalars): every Unicode scalar value through encode / decode / width / one- and
// two-character texts (exhaustive), against Go's unicode/utf8.
// Layer 3 (TestCompiledSweep): a compiled DDP program does the per-scalar round trip
// Zahl -> Buchstabe -> Text -> index/iterate/slice/concatenate -> Zahl for every scalar value at -O 0 and -O 2.
package c12

import (
	"bufio"
	"bytes"
	"encoding/hex"
	"encoding/json"
	"fmt"
	"os"
	"os/exec"
	"path/filepath"
	"strconv"
	"strings"
	"testing"
	"time"
	"unicode/utf8"

	"pgregory.net/rapid"
	"verif/ddp"
	"verif/vf"
)

type Step struct {
	Op   string `json:"op"`
	Dst  int    `json:"dst,omitempty"`
	A    int    `json:"a,omitempty"`
	B    int    `json:"b,omitempty"`
	I    int64  `json:"i,omitempty"`
	J    int64  `json:"j,omitempty"`
	CP   int32  `json:"cp,omitempty"`
	Text string `json:"text,omitempty"`
}

type Case struct {
	Kind  string `json:"kind"` // history | scalars | compiled
	Steps []Step `json:"steps,omitempty"`
	From  int32  `json:"from,omitempty"` // scalars: range
	To    int32  `json:"to,omitempty"`
	Level int    `json:"level,omitempty"`
}

const poolSize = 5

var driverTimeout = 120 * time.Second

func driver() string { return filepath.Join(ddp.Work, "rt_driver") }

// session is a driver process that is kept alive over many cases (starting a sanitizer-instrumented process
// costs far more than a history); every case re-initialises the pool. A driver that dies is restarted.
type session struct {
	cmd    *exec.Cmd
	in     *bufio.Writer
	out    *bufio.Scanner
	stderr *bytes.Buffer
	used   int
}

var cur *session

func startSession() *session {
	cmd := exec.Command(driver())
	cmd.Env = append(os.Environ(), "LOCPATH="+ddp.Locale(), "ASAN_OPTIONS=exitcode=99:detect_leaks=0:abort_on_error=0", "UBSAN_OPTIONS=halt_on_error=1:exitcode=99:print_stacktrace=1")
	stdin, _ := cmd.StdinPipe()
	stdout, _ := cmd.StdoutPipe()
	se := &bytes.Buffer{}
	cmd.Stderr = se
	if err := cmd.Start(); err != nil {
		panic("harness: cannot start rt_driver: " + err.Error())
	}
	sc := bufio.NewScanner(stdout)
	sc.Buffer(make([]byte, 1<<20), 1<<20)
	return &session{cmd: cmd, in: bufio.NewWriterSize(stdin, 1<<16), out: sc, stderr: se}
}

func (s *session) kill() {
	s.cmd.Process.Kill()
	s.cmd.Wait()
}

// runDriver feeds the commands to the driver and returns its answer lines (fewer than commands if it died).
func runDriver(cmds []string) (lines []string, res ddp.Result) {
	if cur == nil || cur.used > 400 {
		if cur != nil {
			cur.kill()
		}
		cur = startSession()
	}
	s := cur
	s.used++
	type answer struct {
		lines []string
	}
	done := make(chan answer, 1)
	go func() {
		var ls []string
		for len(ls) < len(cmds) && s.out.Scan() {
			ls = append(ls, s.out.Text())
		}
		done <- answer{ls}
	}()
	written := make(chan struct{})
	go func() {
		defer close(written)
		for _, c := range cmds {
			s.in.WriteString(c)
			s.in.WriteByte('\n')
		}
		s.in.Flush()
	}()
	select {
	case a := <-done:
		lines = a.lines
		if len(lines) == len(cmds) {
			<-written // the writer must have left the buffer before the next batch uses it
		}
	case <-time.After(driverTimeout):
		res.TimedOut = true
		s.kill()
		cur = nil
		if f := os.Getenv("C12_DEBUG"); f != "" {
			os.WriteFile(f, []byte(strings.Join(cmds, "\n")+"\n"), 0o644)
		}
		return nil, res
	}
	if f := os.Getenv("C12_DEBUG"); f != "" {
		fh, _ := os.OpenFile(f, os.O_APPEND|os.O_CREATE|os.O_WRONLY, 0o644)
		fmt.Fprintf(fh, "=== batch %d cmds %d lines\n", len(cmds), len(lines))
		for i, c := range cmds {
			l := "<none>"
			if i < len(lines) {
				l = lines[i]
			}
			fmt.Fprintf(fh, "%s\t=> %s\n", c, l)
		}
		fh.Close()
	}
	if len(lines) < len(cmds) { // the driver died: collect its status and start a new one next time
		s.cmd.Wait()
		res.Stderr = s.stderr.String()
		if s.cmd.ProcessState != nil {
			res.Exit = s.cmd.ProcessState.ExitCode()
		}
		cur = nil
		return lines, res
	}
	return lines, res
}

// ---------------------------------------------------------------- model

func clamp(v, n int64) int64 {
	if v < 1 {
		return 1
	}
	if v > n {
		return n
	}
	return v
}

// apply performs s on the model; ok=false if the step is outside the domain (C06's subject) and must not be run
func apply(pool [][]rune, s Step) (ok bool) {
	get := func(k int) []rune { return pool[k] }
	switch s.Op {
	case "new":
		pool[s.Dst] = []rune(s.Text)
	case "rep":
		t := get(s.A)
		if s.I < 1 || s.I > int64(len(t)) {
			return false
		}
		n := append([]rune(nil), t...)
		n[s.I-1] = s.CP
		pool[s.A] = n
	case "slc":
		t := get(s.A)
		n := int64(len(t))
		if n == 0 {
			pool[s.Dst] = nil
			return true
		}
		i, j := clamp(s.I, n), clamp(s.J, n)
		if j < i {
			return false
		}
		pool[s.Dst] = append([]rune(nil), t[i-1:j]...)
	case "cat":
		pool[s.Dst] = append(append([]rune(nil), get(s.A)...), get(s.B)...)
	case "catc":
		pool[s.Dst] = append(append([]rune(nil), get(s.A)...), s.CP)
	case "ccat":
		pool[s.Dst] = append([]rune{s.CP}, get(s.A)...)
	case "cpy":
		pool[s.Dst] = append([]rune(nil), get(s.A)...)
	case "c2s":
		pool[s.Dst] = []rune{s.CP}
	case "i2s":
		pool[s.Dst] = []rune(strconv.FormatInt(s.I, 10))
	default:
		return false
	}
	return true
}

func command(s Step) string {
	switch s.Op {
	case "new":
		return fmt.Sprintf("new %d %s", s.Dst, hex.EncodeToString([]byte(s.Text)))
	case "rep":
		return fmt.Sprintf("rep %d %d %d", s.A, s.I, s.CP)
	case "slc":
		return fmt.Sprintf("slc %d %d %d %d", s.Dst, s.A, s.I, s.J)
	case "cat":
		return fmt.Sprintf("cat %d %d %d", s.Dst, s.A, s.B)
	case "catc":
		return fmt.Sprintf("catc %d %d %d", s.Dst, s.A, s.CP)
	case "ccat":
		return fmt.Sprintf("ccat %d %d %d", s.Dst, s.CP, s.A)
	case "cpy":
		return fmt.Sprintf("cpy %d %d", s.Dst, s.A)
	case "c2s":
		return fmt.Sprintf("c2s %d %d", s.Dst, s.CP)
	case "i2s":
		return fmt.Sprintf("i2s %d %d", s.Dst, s.I)
	}
	panic("bad op " + s.Op)
}

func touched(s Step) int {
	if s.Op == "rep" {
		return s.A
	}
	return s.Dst
}

type expectation struct {
	cmd, want, what string
	step            int
}

// observations of entry k against the model
func observe(pool [][]rune, k, step int) []expectation {
	t := pool[k]
	var ex []expectation
	ex = append(ex, expectation{fmt.Sprintf("len %d", k), fmt.Sprintf("len %d", len(t)), "length", step})
	for i := range t {
		ex = append(ex, expectation{fmt.Sprintf("idx %d %d", k, i+1), fmt.Sprintf("idx %d", t[i]), fmt.Sprintf("character at index %d", i+1), step})
	}
	it := "itr"
	for _, r := range t {
		it += fmt.Sprintf(" %d", r)
	}
	ex = append(ex, expectation{fmt.Sprintf("itr %d", k), it, "iteration", step})
	b := []byte(string(t))
	// cap is strlen+1 ("every other text function relies on it"); the empty text may also be {NULL, 0}
	ex = append(ex, expectation{fmt.Sprintf("dump %d", k), fmt.Sprintf("dump %d %s", len(b)+1, hex.EncodeToString(b)), "bytes and capacity", step})
	for o := range pool {
		eq := 0
		if string(pool[o]) == string(t) {
			eq = 1
		}
		ex = append(ex, expectation{fmt.Sprintf("eq %d %d", k, o), fmt.Sprintf("eq %d", eq), fmt.Sprintf("equality with entry %d (%q)", o, string(pool[o])), step})
		ex = append(ex, expectation{fmt.Sprintf("eq %d %d", o, k), fmt.Sprintf("eq %d", eq), fmt.Sprintf("equality of entry %d (%q) with it", o, string(pool[o])), step})
	}
	if len(t) > 0 { // a full-range and a last-character slice into the scratch entry's place would disturb the pool: use s2i only
		if v, err := strconv.ParseInt(string(t), 10, 64); err == nil && fmt.Sprint(v) == string(t) {
			ex = append(ex, expectation{fmt.Sprintf("s2i %d", k), fmt.Sprintf("s2i %d", v), "Text als Zahl", step})
		}
	}
	return ex
}

func judgeHistory(c Case) (*vf.Failure, string) {
	pool := make([][]rune, poolSize)
	var cmds []string
	var exps []expectation // one per command line (want=="ok" for mutating commands)
	for k := 0; k < poolSize; k++ {
		cmds = append(cmds, fmt.Sprintf("new %d", k))
		exps = append(exps, expectation{cmds[len(cmds)-1], "ok", "init", -1})
	}
	for si, s := range c.Steps {
		if !apply(pool, s) {
			continue // outside the domain: not executed (replay of a shrunk history may contain such steps)
		}
		cmds = append(cmds, command(s))
		exps = append(exps, expectation{command(s), "ok", "step", si})
		for _, e := range observe(pool, touched(s), si) {
			cmds = append(cmds, e.cmd)
			exps = append(exps, e)
		}
	}
	lines, res := runDriver(cmds)
	if res.TimedOut {
		return nil, "inconclusive-timeout"
	}
	describe := func(upto int) string {
		var sb strings.Builder
		for si, s := range c.Steps {
			if si > upto {
				break
			}
			b, _ := json.Marshal(s)
			fmt.Fprintf(&sb, "  %d: %s\n", si, b)
		}
		return sb.String()
	}
	for li, e := range exps {
		if li >= len(lines) {
			sig := "died"
			if ddp.IsSanitizerReport(res) {
				sig = "sanitizer"
			} else if strings.Contains(res.Stderr, "Laufzeitfehler") {
				sig = "spurious-laufzeitfehler"
			}
			return vf.NewFailure("C12:"+sig+":"+opOf(c, e.step), fmt.Sprintf("the runtime stopped at command %q (step %d) although every step is inside the domain\nexit=%d stderr:\n%s\nhistory:\n%s", e.cmd, e.step, res.Exit, ddp.Trunc(res.Stderr, 2500), describe(e.step)), c), "violation"
		}
		got := lines[li]
		want := e.want
		if strings.HasPrefix(want, "dump 1 ") && got == "dump 0 " { // the empty text has two representations
			continue
		}
		if got != want {
			return vf.NewFailure("C12:"+strings.Fields(e.cmd)[0]+":"+opOf(c, e.step), fmt.Sprintf("after step %d, %s: expected %q, got %q (command %q)\nhistory:\n%s", e.step, e.what, want, got, e.cmd, describe(e.step)), c), "violation"
		}
	}
	if ddp.IsSanitizerReport(res) || res.Exit != 0 {
		return vf.NewFailure("C12:sanitizer-or-exit", fmt.Sprintf("exit=%d stderr:\n%s\nhistory:\n%s", res.Exit, ddp.Trunc(res.Stderr, 2500), describe(len(c.Steps))), c), "violation"
	}
	return nil, "ok"
}

func opOf(c Case, step int) string {
	if step >= 0 && step < len(c.Steps) {
		return c.Steps[step].Op
	}
	return "init"
}

// ---------------------------------------------------------------- generators

var boundaryCPs = []int32{0x01, 'a', 0x7F, 0x80, 'ä', 0x7FF, 0x800, 0x939, 0xFFF, 0x1000, '€', 0xD7FF, 0xE000, 0xFFFD, 0xFFFF, 0x10000, 0x1D11E, 0x3FFFF, 0x40000, 0xFFFFF, 0x100000, 0x10FFFF, '0', '7', '-'}

func genCP(t *rapid.T, label string) int32 {
	switch rapid.IntRange(0, 9).Draw(t, label+"-class") {
	case 0, 1, 2, 3:
		return rapid.SampledFrom(boundaryCPs).Draw(t, label)
	case 4:
		return int32(rapid.IntRange(1, 0x7F).Draw(t, label))
	case 5:
		return int32(rapid.IntRange(0x80, 0x7FF).Draw(t, label))
	case 6:
		return int32(rapid.IntRange(0x800, 0xFFF).Draw(t, label)) // lead byte E0
	case 7:
		r := int32(rapid.IntRange(0x1000, 0xFFFF).Draw(t, label))
		if r >= 0xD800 && r <= 0xDFFF {
			r = 0xE000 + (r - 0xD800)
		}
		return r
	case 8:
		return int32(rapid.IntRange(0x10000, 0x3FFFF).Draw(t, label)) // lead byte F0
	default:
		return int32(rapid.IntRange(0x40000, 0x10FFFF).Draw(t, label))
	}
}

func genText(t *rapid.T, label string) string {
	n := rapid.IntRange(0, 6).Draw(t, label+"-len")
	rs := make([]rune, n)
	for i := range rs {
		rs[i] = genCP(t, fmt.Sprintf("%s-%d", label, i))
	}
	return string(rs)
}

func genHistory(t *rapid.T) Case {
	pool := make([][]rune, poolSize)
	n := rapid.IntRange(3, 30).Draw(t, "steps")
	var steps []Step
	for len(steps) < n {
		slot := func(l string) int { return rapid.IntRange(0, poolSize-1).Draw(t, l) }
		var s Step
		switch rapid.IntRange(0, 11).Draw(t, "op") {
		case 0, 1:
			s = Step{Op: "new", Dst: slot("dst"), Text: genText(t, "text")}
		case 2, 3:
			a := slot("a")
			if len(pool[a]) == 0 {
				s = Step{Op: "new", Dst: a, Text: genText(t, "text")}
				break
			}
			s = Step{Op: "rep", A: a, I: int64(rapid.IntRange(1, len(pool[a])).Draw(t, "i")), CP: genCP(t, "cp")}
		case 4, 5:
			a := slot("a")
			ln := int64(len(pool[a]))
			i := int64(rapid.IntRange(-1, int(ln)+3).Draw(t, "i"))
			j := int64(rapid.IntRange(-1, int(ln)+3).Draw(t, "j"))
			if ln > 0 && clamp(j, ln) < clamp(i, ln) {
				i, j = j, i
			}
			s = Step{Op: "slc", Dst: slot("dst"), A: a, I: i, J: j}
		case 6:
			s = Step{Op: "cat", Dst: slot("dst"), A: slot("a"), B: slot("b")}
		case 7:
			s = Step{Op: "catc", Dst: slot("dst"), A: slot("a"), CP: genCP(t, "cp")}
		case 8:
			s = Step{Op: "ccat", Dst: slot("dst"), A: slot("a"), CP: genCP(t, "cp")}
		case 9:
			s = Step{Op: "cpy", Dst: slot("dst"), A: slot("a")}
		case 10:
			s = Step{Op: "c2s", Dst: slot("dst"), CP: genCP(t, "cp")}
		default:
			s = Step{Op: "i2s", Dst: slot("dst"), I: rapid.Int64().Draw(t, "n")}
		}
		if !apply(pool, s) {
			continue
		}
		steps = append(steps, s)
	}
	return Case{Kind: "history", Steps: steps}
}

func width(r rune) int { return utf8.RuneLen(r) }

func TestHistories(t *testing.T) {
	defer vf.AfterCheck(t)
	if os.Getenv("C12_DEBUG") != "" {
		driverTimeout = 5 * time.Second
	}
	vf.Checks(8000, 200000)
	rapid.Check(t, func(t *rapid.T) {
		c := genHistory(t)
		// features / non-triviality: a width-changing replacement or a slice/concatenation of a multi-byte text
		pool := make([][]rune, poolSize)
		nontrivial := false
		feats := map[string]bool{}
		for _, s := range c.Steps {
			switch s.Op {
			case "rep":
				old := pool[s.A][s.I-1]
				if width(old) != width(s.CP) {
					nontrivial = true
					feats[fmt.Sprintf("replace:%d->%d bytes", width(old), width(s.CP))] = true
				}
			case "slc", "cat", "catc", "ccat":
				if len(string(pool[s.A])) != len(pool[s.A]) {
					nontrivial = true
					feats[s.Op+":multibyte"] = true
				}
				if s.Op == "slc" && (s.I > int64(len(pool[s.A])) || s.J > int64(len(pool[s.A])) || s.I < 1) {
					feats["slice:clamped"] = true
				}
			}
			apply(pool, s)
		}
		var fl []string
		for f := range feats {
			fl = append(fl, f)
		}
		b, _ := json.Marshal(c.Steps)
		vf.Case(string(b), nontrivial, fl...)
		f, outcome := judgeHistory(c)
		if vf.Report(t, f) {
			return
		}
		if outcome != "ok" {
			vf.Count(outcome)
			return
		}
		vf.Sample("history", map[string]any{"steps": len(c.Steps), "first": c.Steps[:min(3, len(c.Steps))]})
	})
}

// ---------------------------------------------------------------- exhaustive per-scalar sweep

func judgeScalars(c Case) (*vf.Failure, string) {
	var cmds []string
	type ex struct {
		want string
		cp   int32
		what string
	}
	var exps []ex
	add := func(cmd, want string, cp int32, what string) {
		cmds = append(cmds, cmd)
		exps = append(exps, ex{want, cp, what})
	}
	for cp := c.From; cp <= c.To; cp++ {
		if cp >= 0xD800 && cp <= 0xDFFF {
			continue
		}
		enc := []byte(string(rune(cp)))
		h := hex.EncodeToString(enc)
		add(fmt.Sprintf("enc %d", cp), fmt.Sprintf("enc %d %s %d", len(enc), h, len(enc)), cp, "encoding (utf8_char_to_string, utf8_num_bytes_char)")
		add("dec "+h, fmt.Sprintf("dec %d %d %d 1 %d", len(enc), cp, len(enc), len(enc)), cp, "decoding (utf8_string_to_char, utf8_num_bytes, utf8_strlen, utf8_indicated_num_bytes)")
		// texts: the character alone, between two ASCII letters and doubled
		add(fmt.Sprintf("c2s 0 %d", cp), "ok", cp, "")
		add("len 0", "len 1", cp, "length of the one-character text")
		add("idx 0 1", fmt.Sprintf("idx %d", cp), cp, "index 1 of the one-character text")
		add(fmt.Sprintf("new 1 61%s7a%s", h, h), "ok", cp, "")
		add("len 1", "len 4", cp, "length of a<c>z<c>")
		add("idx 1 2", fmt.Sprintf("idx %d", cp), cp, "index 2 of a<c>z<c>")
		add("idx 1 3", "idx 122", cp, "index 3 of a<c>z<c>")
		add("idx 1 4", fmt.Sprintf("idx %d", cp), cp, "index 4 of a<c>z<c>")
		add("itr 1", fmt.Sprintf("itr 97 %d 122 %d", cp, cp), cp, "iteration over a<c>z<c>")
		add("slc 2 1 2 2", "ok", cp, "")
		add("eq 2 0", "eq 1", cp, "slice 2..2 of a<c>z<c> equals the one-character text")
		add("slc 2 1 4 9", "ok", cp, "")
		add("eq 0 2", "eq 1", cp, "slice 4..9 of a<c>z<c> equals the one-character text")
		add("rep 1 3 "+fmt.Sprint(cp), "ok", cp, "")
		add("dump 1", fmt.Sprintf("dump %d 61%s%s%s", 2+3*len(enc), h, h, h), cp, "a<c>z<c> after replacing z by <c>")
		add("rep 1 2 122", "ok", cp, "")
		add("dump 1", fmt.Sprintf("dump %d 617a%s%s", 3+2*len(enc), h, h), cp, "a<c><c><c> after replacing the first <c> by z")
	}
	lines, res := runDriver(cmds)
	if res.TimedOut {
		return nil, "inconclusive-timeout"
	}
	for li, e := range exps {
		if li >= len(lines) {
			return vf.NewFailure("C12:scalar:died", fmt.Sprintf("the runtime stopped at command %q for U+%04X\nexit=%d stderr:\n%s", cmds[li], e.cp, res.Exit, ddp.Trunc(res.Stderr, 2000)), Case{Kind: "scalars", From: e.cp, To: e.cp}), "violation"
		}
		if lines[li] != e.want {
			return vf.NewFailure("C12:scalar:"+strings.Fields(cmds[li])[0], fmt.Sprintf("U+%04X, %s: command %q expected %q, got %q", e.cp, e.what, cmds[li], e.want, lines[li]), Case{Kind: "scalars", From: e.cp, To: e.cp}), "violation"
		}
	}
	if res.Exit != 0 || ddp.IsSanitizerReport(res) {
		return vf.NewFailure("C12:scalar:sanitizer-or-exit", fmt.Sprintf("range U+%04X..U+%04X exit=%d stderr:\n%s", c.From, c.To, res.Exit, ddp.Trunc(res.Stderr, 2000)), c), "violation"
	}
	return nil, "ok"
}

func TestAllScalars(t *testing.T) {
	defer vf.AfterCheck(t)
	k, n := vf.Shard()
	const block = 0x1000
	blocks := 0
	for from := int32(0); from <= 0x10FFFF; from += block {
		if int(from/block)%n != k {
			continue
		}
		// quick: every block boundary region and every 4th block completely; thorough: everything
		full := vf.Thorough() || (from/block)%4 == int32(vf.BaseSeed()%4) || from < 0x12000
		c := Case{Kind: "scalars", From: max(from, 1), To: from + block - 1}
		if !full {
			c.To = c.From + 0x3F
		}
		f, outcome := judgeScalars(c)
		if outcome != "ok" && outcome != "violation" {
			vf.Count(outcome)
			continue
		}
		blocks++
		cnt := int64(c.To-c.From) + 1
		vf.Evals(cnt - 1)
		vf.Case(fmt.Sprintf("scalars %x-%x", c.From, c.To), true, fmt.Sprintf("scalars:%d-byte", utf8.RuneLen(rune(c.From))))
		vf.Count("scalars-checked", cnt)
		if f != nil {
			vf.AddFailure(f)
		}
	}
	vf.SetExtra("scalar_blocks_this_shard", blocks)
}

// ---------------------------------------------------------------- compiled sweep

const sweepSrc = `Binde "Duden/Ausgabe" ein.

Die Zahl fehler ist 0.
Für jede Zahl c von 1 bis 1114111, mache:
	Wenn c kleiner als 55296 ist oder c größer als 57343 ist, dann:
		Der Buchstabe b ist c als Buchstabe.
		Der Text t ist b als Text.
		Der Text tt ist t verkettet mit b.
		Die Zahl gesehen ist 0.
		Für jeden Buchstaben x in tt, mache:
			Erhöhe gesehen um 1.
			Wenn x ungleich b ist, Speichere -100 in gesehen.
		Der Text ersetzt ist "xyz".
		Speichere b in ersetzt an der Stelle 2.
		Wenn (die Länge von t) ungleich 1 ist oder (t an der Stelle 1) ungleich b ist oder (b als Zahl) ungleich c ist oder (die Länge von tt) ungleich 2 ist oder (tt an der Stelle 2) ungleich b ist oder gesehen ungleich 2 ist oder (tt ab dem 2. Element) ungleich t ist oder (('a' verkettet mit t verkettet mit 'z') an der Stelle 2) ungleich b ist oder (die Länge von ersetzt) ungleich 3 ist oder (ersetzt an der Stelle 2) ungleich b ist oder (ersetzt an der Stelle 3) ungleich 'z' ist oder ersetzt ungleich ('x' verkettet mit t verkettet mit 'z') ist, dann:
			Erhöhe fehler um 1.
			Wenn fehler kleiner als 20 ist, Schreibe c auf eine Zeile.
Schreibe "fehler:" auf eine Zeile.
Schreibe fehler auf eine Zeile.
`

func judgeCompiled(c Case) (*vf.Failure, string) {
	dir := ddp.TempDir("verif-c12-")
	defer os.RemoveAll(dir)
	os.WriteFile(filepath.Join(dir, "sweep.ddp"), []byte(sweepSrc), 0o644)
	cr := ddp.Compile(dir, "sweep.ddp", filepath.Join(dir, "sweep"), "-O", fmt.Sprint(c.Level))
	if cr.TimedOut {
		return nil, "inconclusive-build-timeout"
	}
	if cr.Exit != 0 {
		return nil, "build-fails(C02): " + ddp.Trunc(cr.Stderr+cr.Stdout, 300)
	}
	r := ddp.Run(dir, 300*time.Second, "env", "LOCPATH="+ddp.Locale(), filepath.Join(dir, "sweep"))
	if r.TimedOut {
		return nil, "inconclusive-run-timeout"
	}
	if r.Exit != 0 || r.Stdout != "fehler:\n0\n" {
		return vf.NewFailure("C12:compiled-sweep", fmt.Sprintf("-O %d: the compiled per-scalar round trip (Zahl -> Buchstabe -> Text -> length/index/iteration/slice/concatenation/replacement -> Zahl) reports mismatches; first code points and count:\n%s\n%s\nstderr: %s", c.Level, ddp.Trunc(r.Stdout, 800), r.String(), ddp.Trunc(r.Stderr, 800)), c), "violation"
	}
	return nil, "ok"
}

func TestCompiledSweep(t *testing.T) {
	defer vf.AfterCheck(t)
	k, n := vf.Shard()
	for li, lvl := range []int{0, 2, 1} {
		if li%n != k || (!vf.Thorough() && lvl == 1) {
			continue
		}
		c := Case{Kind: "compiled", Level: lvl}
		f, outcome := judgeCompiled(c)
		if outcome != "ok" && outcome != "violation" {
			vf.Count(outcome)
			t.Logf("compiled sweep -O %d: %s", lvl, outcome)
			continue
		}
		vf.Case(fmt.Sprintf("compiled-sweep-O%d", lvl), true, "compiled-sweep")
		vf.Evals(1112063)
		if f != nil {
			vf.AddFailure(f)
		}
	}
}

func TestMain(m *testing.M) {
	vf.Main(m, vf.Def{
		ID:    "C12",
		Level: "exploration",
		Rule: "layer 1: rapid-generated histories (3-30 steps) of text operations on a pool of 5 texts - new from bytes, replace character (any width by any width), slice with clamped bounds, the three concatenations, deep copy, Buchstabe->Text, Zahl->Text - over an alphabet of boundary code points (U+0001, 7F, 80, 7FF, 800, FFF, 1000, D7FF, E000, FFFF, 10000, 3FFFF, 40000, FFFFF, 100000, 10FFFF, ...) and random scalars of every lead-byte class, executed by a C driver linked against the real runtime (AddressSanitizer build); after every step length, every index, the decoding the compiled for-each performs, bytes + capacity (= byte length + 1), Text->Zahl and equality with every pool entry in both argument orders must equal the []rune model; " +
			"layer 2: every Unicode scalar value (quick: every block of 4096 partially, every 4th and all below U+12000 completely; thorough: all 1,112,064) through encode, decode, width, and one- to four-character texts (length, index, iteration, slice incl. clamped end, replacement by narrower and wider characters) against Go's unicode/utf8; " +
			"layer 3: a compiled DDP program performs the round trip Zahl -> Buchstabe -> Text -> length/index/for-each/slice/concatenation/replacement/equality -> Zahl for every scalar value at -O 0 and -O 2 (thorough: and -O 1); " +
			"non-trivial = a history with a replacement that changes the byte width or a slice/concatenation of a text with multi-byte characters; a scalar block; distinct by history / block",
		Assumptions: []string{
			"U+0000 cannot occur inside a Text (texts are NUL-terminated) and surrogates are no scalar values: both are excluded",
			"steps outside the domain (index outside 1..length, crossed slice bounds) are C06's subject and are not generated",
			"the empty Text may be represented with capacity 0 or 1",
		},
		Judge: func(raw json.RawMessage) *vf.Failure {
			var c Case
			if err := json.Unmarshal(raw, &c); err != nil {
				return vf.NewFailure("harness:bad-case", err.Error(), nil)
			}
			var f *vf.Failure
			switch c.Kind {
			case "scalars":
				f, _ = judgeScalars(c)
			case "compiled":
				f, _ = judgeCompiled(c)
			default:
				f, _ = judgeHistory(c)
			}
			return f
		},
	})
}
