package c01

import (
	"fmt"
	"strings"
	"testing"

	"verif/gen"
	"verif/ref"
	"verif/vf"
)

// Systematic sweep: every numeric operator x admissible operand-type tuple x operand value classes
// (operands are variables, results are printed); complements the random programs, which rarely hit
// coincidences such as "x equals the truncated Kommazahl bound".

var (
	zahlVals  = []int64{0, 1, -1, 2, 5, -4}
	kommaVals = []float64{0, 0.5, -0.5, 2.5, 5.5, -4.5}
	byteVals  = []int64{0, 1, 2, 5, 255}
)

type operand struct {
	name string
	t    *gen.Type
	lit  gen.Expr
}

func operandsOf(t *gen.Type, prefix string) []operand {
	var out []operand
	switch t {
	case gen.TZahl:
		for i, v := range zahlVals {
			out = append(out, operand{fmt.Sprintf("%sz%d", prefix, i), t, &gen.Lit{T: t, I: v}})
		}
	case gen.TKomma:
		for i, v := range kommaVals {
			out = append(out, operand{fmt.Sprintf("%sk%d", prefix, i), t, &gen.Lit{T: t, F: v}})
		}
	case gen.TByte:
		for i, v := range byteVals {
			out = append(out, operand{fmt.Sprintf("%sb%d", prefix, i), t, &gen.Lit{T: t, I: v}})
		}
	}
	return out
}

type cellOp struct {
	name  string
	arity int
	types []*gen.Type // admissible operand types
	build func(args []gen.Expr) gen.Expr
	rtype func(ts []*gen.Type) *gen.Type
}

var num3 = []*gen.Type{gen.TZahl, gen.TKomma, gen.TByte}
var int2 = []*gen.Type{gen.TZahl, gen.TByte}

func arithType(ts []*gen.Type) *gen.Type {
	if ts[0] == gen.TKomma || ts[1] == gen.TKomma {
		return gen.TKomma
	}
	if ts[0] == gen.TByte && ts[1] == gen.TByte {
		return gen.TByte
	}
	return gen.TZahl
}
func boolType([]*gen.Type) *gen.Type  { return gen.TBool }
func kommaType([]*gen.Type) *gen.Type { return gen.TKomma }

func binOp(op string, ts []*gen.Type, rt func([]*gen.Type) *gen.Type) cellOp {
	return cellOp{op, 2, ts, func(a []gen.Expr) gen.Expr {
		return &gen.Bin{Op: op, L: a[0], R: a[1], T: rt([]*gen.Type{a[0].Type(), a[1].Type()})}
	}, rt}
}

var cellOps = []cellOp{
	binOp("plus", num3, arithType), binOp("minus", num3, arithType), binOp("mal", num3, arithType), binOp("durch", num3, kommaType),
	binOp("modulo", int2, arithType), binOp("land", int2, arithType), binOp("lor", int2, arithType), binOp("lxor", int2, arithType),
	binOp("kleiner", num3, boolType), binOp("groesser", num3, boolType), binOp("kleinergleich", num3, boolType), binOp("groessergleich", num3, boolType),
	{"shl", 2, int2, func(a []gen.Expr) gen.Expr { return &gen.Bin{Op: "shl", L: a[0], R: a[1], T: a[0].Type()} }, nil},
	{"shr", 2, int2, func(a []gen.Expr) gen.Expr { return &gen.Bin{Op: "shr", L: a[0], R: a[1], T: a[0].Type()} }, nil},
	{"zwischen", 3, num3, func(a []gen.Expr) gen.Expr { return &gen.Between{X: a[0], A: a[1], B: a[2]} }, nil},
	{"neg", 1, num3, func(a []gen.Expr) gen.Expr {
		t := a[0].Type()
		if t == gen.TByte {
			t = gen.TZahl
		}
		return &gen.Un{Op: "neg", X: a[0], T: t}
	}, nil},
	{"abs", 1, num3, func(a []gen.Expr) gen.Expr {
		t := a[0].Type()
		if t == gen.TByte {
			t = gen.TZahl
		}
		return &gen.Un{Op: "abs", X: a[0], T: t}
	}, nil},
	{"lnot", 1, int2, func(a []gen.Expr) gen.Expr { return &gen.Un{Op: "lnot", X: a[0], T: a[0].Type()} }, nil},
	{"als Zahl", 1, num3, func(a []gen.Expr) gen.Expr { return &gen.Cast{X: a[0], T: gen.TZahl} }, nil},
	{"als Kommazahl", 1, num3, func(a []gen.Expr) gen.Expr { return &gen.Cast{X: a[0], T: gen.TKomma} }, nil},
	{"als Byte", 1, num3, func(a []gen.Expr) gen.Expr { return &gen.Cast{X: a[0], T: gen.TByte} }, nil},
	{"als Text", 1, num3, func(a []gen.Expr) gen.Expr { return &gen.Cast{X: a[0], T: gen.TText} }, nil},
	{"als Wahrheitswert", 1, int2, func(a []gen.Expr) gen.Expr { return &gen.Cast{X: a[0], T: gen.TBool} }, nil},
	{"gleich", 2, nil, nil, nil}, // same-type equality handled below
}

type cellProgram struct {
	name string
	prog *gen.Program
	n    int
}

// cellPrograms enumerates the sweep as programs of at most maxPrints observations each.
func cellPrograms(maxPrints int) []cellProgram {
	var out []cellProgram
	for _, op := range cellOps {
		if op.build == nil { // gleich / ungleich on equal numeric types
			for _, t := range num3 {
				for _, eq := range []string{"gleich", "ungleich"} {
					eq := eq
					o := cellOp{eq, 2, nil, func(a []gen.Expr) gen.Expr { return &gen.Bin{Op: eq, L: a[0], R: a[1], T: gen.TBool} }, nil}
					out = append(out, buildCells(o, []*gen.Type{t, t}, maxPrints)...)
				}
			}
			continue
		}
		tuples := [][]*gen.Type{{}}
		for i := 0; i < op.arity; i++ {
			var next [][]*gen.Type
			for _, tu := range tuples {
				for _, t := range op.types {
					next = append(next, append(append([]*gen.Type{}, tu...), t))
				}
			}
			tuples = next
		}
		for _, tu := range tuples {
			out = append(out, buildCells(op, tu, maxPrints)...)
		}
	}
	return out
}

func buildCells(op cellOp, tu []*gen.Type, maxPrints int) []cellProgram {
	var decls []gen.Stmt
	var pools [][]operand
	for i, t := range tu {
		ops := operandsOf(t, string(rune('a'+i)))
		pools = append(pools, ops)
		for _, o := range ops {
			decls = append(decls, &gen.VarDecl{Name: o.name, T: o.t, Init: o.lit})
		}
	}
	// cartesian product of the operand pools
	idx := make([]int, len(pools))
	var prints []gen.Stmt
	for {
		args := make([]gen.Expr, len(pools))
		for i, p := range pools {
			args[i] = &gen.Ref{Name: p[idx[i]].name, T: p[idx[i]].t}
		}
		e := op.build(args)
		// drop observations the rules leave unspecified
		single := &gen.Program{Main: append(append([]gen.Stmt{}, decls...), &gen.Print{X: e})}
		if o := ref.Run(single); o.Unspecified == "" && !o.Budget {
			prints = append(prints, &gen.Print{X: e})
		}
		k := len(idx) - 1
		for k >= 0 {
			idx[k]++
			if idx[k] < len(pools[k]) {
				break
			}
			idx[k] = 0
			k--
		}
		if k < 0 {
			break
		}
	}
	var names []string
	for _, t := range tu {
		names = append(names, t.Src())
	}
	var out []cellProgram
	for i := 0; i < len(prints); i += maxPrints {
		j := min(len(prints), i+maxPrints)
		p := &gen.Program{Main: append(append([]gen.Stmt{}, decls...), prints[i:j]...)}
		out = append(out, cellProgram{fmt.Sprintf("%s(%s)#%d", op.name, strings.Join(names, ","), i/maxPrints), p, j - i})
	}
	return out
}

func TestOperatorCells(t *testing.T) {
	defer vf.AfterCheck(t)
	progs := cellPrograms(120)
	k, n := vf.Shard()
	total := 0
	for i, cp := range progs {
		if i%n != k {
			continue
		}
		out := ref.Run(cp.prog)
		if out.Unspecified != "" || out.Budget || out.Laufzeitfehler {
			t.Fatalf("sweep program %s is not in the specified domain: %+v", cp.name, out.Unspecified)
		}
		c := Case{Source: (&gen.Printer{}).Program(cp.prog), Expect: out.Stdout}
		if vf.Thorough() {
			c.Levels = []int{0, 1, 2}
		} else {
			c.Levels = []int{[]int{0, 1, 2}[(int(vf.BaseSeed())+i)%3]}
		}
		f, outcome := judge(c)
		if f != nil {
			f.Signature = "C01:cell:" + cp.name[:strings.Index(cp.name, "#")]
			if vf.IsKnown(f.Signature) {
				vf.KnownHit(f)
				continue
			}
			vf.AddFailure(f)
			continue
		}
		if outcome != "ok" {
			vf.Count("cells:" + outcome)
			continue
		}
		total += cp.n
		vf.Case("cells:"+cp.name, true, "sweep:operator-cell-program")
		vf.Count("sweep:observations", int64(cp.n))
		vf.Sample("operator-cells", map[string]any{"cell": cp.name, "observations": cp.n, "source_head": c.Source[:min(len(c.Source), 700)]})
	}
	vf.SetExtra("operator_cell_sweep", fmt.Sprintf("%d programs in total over all shards (operator x operand-type tuple x value classes %v / %v / %v), exhaustive over that table", len(progs), zahlVals, kommaVals, byteVals))
}
