// C01 — compiled programs behave as DDP's evaluation rules prescribe.
package c01

import (
	"encoding/json"
	"fmt"
	"os"
	"path/filepath"
	"sort"
	"strings"
	"testing"

	"pgregory.net/rapid"

	"verif/ddp"
	"verif/fe"
	"verif/gen"
	"verif/ref"
	"verif/vf"
)

// Case is replayable without the generator: the source and the expectation computed by the reference evaluator.
type Case struct {
	Source   string   `json:"source"`
	Expect   string   `json:"expect_stdout"`
	ExpectRT bool     `json:"expect_laufzeitfehler"`
	Why      string   `json:"laufzeitfehler_reason,omitempty"`
	Levels   []int    `json:"levels"`
	Features []string `json:"features,omitempty"`
}

func TestMain(m *testing.M) {
	vf.Main(m, vf.Def{
		ID:    "C01",
		Level: "exploration",
		Rule: "typed random programs of the core language (Zahl, Kommazahl, Byte, Wahrheitswert, Buchstabe, Text, lists, Kombinationen, functions with value and Referenz parameters, all loop forms, break/continue/early return) are generated as the harness's own AST, printed with minimal parentheses according to the precedence ladder, evaluated by an independent reference interpreter and compiled with the real kddp at -O 0/1/2 (quick: one drawn level per program, thorough: all three); " +
			"oracle: stdout bytes and exit status (0, or 1 with a Laufzeitfehler message exactly when the interpreter demands one) equal the interpreter's; programs the rules leave unspecified (shift counts out of range, modulo 0, out-of-range conversions) are discarded and counted; " +
			"non-trivial = accepted by the frontend, in the specified domain, prints >= 3 lines; distinct by source hash; the feature histogram lists operator x operand-type cells and constructs hit",
		Assumptions: []string{
			"the reference interpreter's rules are the semantics ledger of DESIGN.md 2.2 (goldens, CHANGELOG/README, checker result types, code comments); it is calibrated on notes/syntax_probe.ddp",
			"hoch/Logarithmus/Wurzel (libm) are not generated in this tier",
			"a compile/run time-out is inconclusive",
		},
		Judge: func(raw json.RawMessage) *vf.Failure {
			var c Case
			if err := json.Unmarshal(raw, &c); err != nil {
				return vf.NewFailure("harness:bad-case", err.Error(), nil)
			}
			f, _ := judge(c)
			return f
		},
	})
}

func firstDiff(a, b string) string {
	al, bl := strings.Split(a, "\n"), strings.Split(b, "\n")
	for i := 0; i < len(al) || i < len(bl); i++ {
		var x, y string
		if i < len(al) {
			x = al[i]
		}
		if i < len(bl) {
			y = bl[i]
		}
		if x != y {
			return fmt.Sprintf("first difference at output line %d: expected %q, got %q", i+1, x, y)
		}
	}
	return "no difference"
}

// judge compiles and runs the case at each level and compares with the expectation.
func judge(c Case) (*vf.Failure, string) {
	res := fe.ParseSource("c01.ddp", []byte(c.Source))
	if !res.Accepted() {
		return nil, "frontend-rejected: " + strings.Join(res.DiagStrings(), " | ") + res.Panic + res.Err
	}
	dir := ddp.TempDir("verif-c01-")
	defer os.RemoveAll(dir)
	os.WriteFile(filepath.Join(dir, "p.ddp"), []byte(c.Source), 0o644)
	for _, lvl := range c.Levels {
		exe := fmt.Sprintf("p%d", lvl)
		cr := ddp.Compile(dir, "p.ddp", exe, "-O", fmt.Sprint(lvl))
		if cr.TimedOut {
			return nil, "inconclusive-compile-timeout"
		}
		if cr.Exit != 0 {
			out := cr.Stdout + cr.Stderr
			return vf.NewFailure("C01:compile-fails(C02)", fmt.Sprintf("-O %d: the frontend accepts the program but kddp fails:\n%s\n--- source\n%s", lvl, ddp.Trunc(out, 1500), c.Source), c), "compile-fails"
		}
		rr := ddp.Exec(dir, filepath.Join(dir, exe), "")
		if rr.TimedOut {
			return nil, "inconclusive-run-timeout"
		}
		wantExit := 0
		if c.ExpectRT {
			wantExit = 1
		}
		var problem string
		switch {
		case rr.Signal != "":
			problem = "killed by signal " + rr.Signal
		case ddp.IsSegfault(rr):
			problem = "segmentation fault (reported by the runtime's signal handler as 'Laufzeitfehler: Segmentation fault')"
		case rr.Stdout != c.Expect:
			problem = "standard output differs: " + firstDiff(c.Expect, rr.Stdout)
		case rr.Exit != wantExit:
			problem = fmt.Sprintf("exit status %d, expected %d", rr.Exit, wantExit)
		case c.ExpectRT && !strings.Contains(rr.Stderr, "Laufzeitfehler"):
			problem = "exit status 1 without a Laufzeitfehler message on stderr"
		}
		if problem != "" {
			sig := "C01:output"
			if rr.Signal != "" || ddp.IsSegfault(rr) {
				sig = "C01:signal"
			} else if rr.Exit != wantExit {
				sig = "C01:exit-status"
			}
			return vf.NewFailure(sig, fmt.Sprintf("-O %d: %s\nexpected exit %d (Laufzeitfehler: %v %s), got %s; stderr: %s\n--- expected stdout\n%s\n--- actual stdout\n%s\n--- source\n%s",
				lvl, problem, wantExit, c.ExpectRT, c.Why, rr.String(), ddp.Trunc(rr.Stderr, 300), ddp.Trunc(c.Expect, 1500), ddp.Trunc(rr.Stdout, 1500), c.Source), c), "violation"
		}
	}
	return nil, "ok"
}

func TestPrograms(t *testing.T) {
	defer vf.AfterCheck(t)
	vf.Checks(512, 2400)
	rapid.Check(t, func(t *rapid.T) {
		cfg := gen.Config{MaxStmts: rapid.IntRange(3, 9).Draw(t, "size"), MaxDepth: rapid.IntRange(1, 3).Draw(t, "depth"), Funcs: 3, Structs: true, AllowRTE: rapid.IntRange(0, 3).Draw(t, "rte") == 0}
		prog, feats := gen.Generate(t, cfg)
		if rapid.IntRange(0, 3).Draw(t, "main-in-function") > 0 { // holders as locals of a function instead of globals
			gen.WrapMain(prog)
			feats["main-in-function"]++
		}
		pr := &gen.Printer{FullParens: rapid.IntRange(0, 4).Draw(t, "fullparens") == 0, ParenPrint: rapid.IntRange(0, 7).Draw(t, "paren-print") > 0}
		src := pr.Program(prog)
		out := ref.Run(prog)
		switch {
		case out.Budget:
			vf.Count("discard:step-budget(generator)")
			t.Skip("budget")
		case out.Unspecified != "":
			vf.Count("discard:unspecified:" + out.Unspecified)
			t.Skip("unspecified")
		}
		c := Case{Source: src, Expect: out.Stdout, ExpectRT: out.Laufzeitfehler, Why: out.Why}
		if vf.Thorough() {
			c.Levels = []int{0, 1, 2}
		} else {
			c.Levels = []int{rapid.SampledFrom([]int{0, 1, 2, 2}).Draw(t, "level")}
		}
		for f := range feats {
			c.Features = append(c.Features, f)
		}
		sort.Strings(c.Features)
		f, outcome := judge(c)
		if strings.HasPrefix(outcome, "frontend-rejected") {
			vf.Count("generator:frontend-rejected")
			if os.Getenv("VERIF_DEBUG_REJECTS") != "" {
				fmt.Fprintf(os.Stderr, "REJECTED %s\n%s\n", outcome, src)
			}
			vf.Sample("frontend-rejected(generator defect)", map[string]string{"why": outcome, "source": src})
			t.Skip("rejected")
		}
		if vf.Report(t, f) {
			return
		}
		if strings.HasPrefix(outcome, "inconclusive") {
			vf.Count(outcome)
			return
		}
		lines := strings.Count(out.Stdout, "\n")
		nt := lines >= 3
		fl := []string{fmt.Sprintf("levels:%v", c.Levels)}
		if out.Laufzeitfehler {
			fl = append(fl, "ends-in-laufzeitfehler")
		}
		if pr.FullParens {
			fl = append(fl, "printer:full-parens")
		}
		for _, f := range c.Features {
			fl = append(fl, "f:"+f)
		}
		for f := range out.Features {
			fl = append(fl, "run:"+f)
		}
		vf.Case(src, nt, fl...)
		if nt {
			vf.Sample(fmt.Sprintf("program(size<=%d)", cfg.MaxStmts), map[string]any{"source": src, "expected_stdout": out.Stdout, "levels": c.Levels})
		}
	})
}
