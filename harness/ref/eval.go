// Package ref is the reference evaluator for gen programs: an interpreter written from DDP's
// evaluation rules (semantics ledger in DESIGN.md section 2.2), sharing no code with src/compiler or lib/runtime.
package ref

import (
	"errors"
	"fmt"
	"math"
	"strconv"
	"strings"

	"verif/gen"
)

// ---------------------------------------------------------------- values

type Value interface{}

// int64 (Zahl), float64 (Kommazahl), uint8 (Byte), bool, rune (Buchstabe), string (Text),
// *List, *Struct
type List struct{ Elems []Value }
type Struct struct {
	S      *gen.Struct
	Fields []Value
}

func Copy(v Value) Value {
	switch v := v.(type) {
	case *List:
		n := &List{Elems: make([]Value, len(v.Elems))}
		for i, e := range v.Elems {
			n.Elems[i] = Copy(e)
		}
		return n
	case *Struct:
		n := &Struct{S: v.S, Fields: make([]Value, len(v.Fields))}
		for i, e := range v.Fields {
			n.Fields[i] = Copy(e)
		}
		return n
	}
	return v
}

func Default(t *gen.Type) Value {
	switch t.K {
	case gen.KZahl:
		return int64(0)
	case gen.KKomma:
		return float64(0)
	case gen.KByte:
		return uint8(0)
	case gen.KBool:
		return false
	case gen.KChar:
		return rune(0)
	case gen.KText:
		return ""
	case gen.KList:
		return &List{}
	case gen.KStruct:
		s := &Struct{S: t.S}
		for _, f := range t.S.Fields {
			s.Fields = append(s.Fields, Default(f.T))
		}
		return s
	}
	panic("no default")
}

func Equal(a, b Value) bool {
	switch a := a.(type) {
	case *List:
		bl := b.(*List)
		if len(a.Elems) != len(bl.Elems) {
			return false
		}
		for i := range a.Elems {
			if !Equal(a.Elems[i], bl.Elems[i]) {
				return false
			}
		}
		return true
	case *Struct:
		bs := b.(*Struct)
		for i := range a.Fields {
			if !Equal(a.Fields[i], bs.Fields[i]) {
				return false
			}
		}
		return true
	case float64:
		return a == b.(float64) // IEEE ordered equal
	}
	return a == b
}

// ---------------------------------------------------------------- outcomes

// Unspecified: the rules fix no result (the case is discarded, never judged).
type Unspecified struct{ Why string }

func (u *Unspecified) Error() string { return "unspecified: " + u.Why }

// RuntimeError: the program must stop with a Laufzeitfehler (exit status 1).
type RuntimeError struct{ Why string }

func (r *RuntimeError) Error() string { return "Laufzeitfehler: " + r.Why }

var errBudget = errors.New("step budget exhausted (generator bug: non-terminating program)")

type Outcome struct {
	Stdout         string
	Laufzeitfehler bool   // ended with a runtime error (exit 1), Stdout holds what was printed before
	Why            string // reason of the runtime error
	Unspecified    string // non-empty: discard the case
	Budget         bool   // step budget exhausted
	Features       map[string]int
}

// ---------------------------------------------------------------- interpreter

type ctl int

const (
	ctlNone ctl = iota
	ctlBreak
	ctlContinue
	ctlReturn
)

type frame struct {
	vars   []map[string]*Value // scope chain; *Value so that references can alias
	retVal Value
}

type Interp struct {
	out      strings.Builder
	globals  map[string]*Value
	steps    int
	maxSteps int
	Features map[string]int
}

func (in *Interp) feat(f string) { in.Features[f]++ }

func Run(p *gen.Program) (o Outcome) {
	in := &Interp{globals: map[string]*Value{}, maxSteps: 2_000_000, Features: map[string]int{}}
	fr := &frame{vars: []map[string]*Value{in.globals}}
	defer func() {
		o.Stdout = in.out.String()
		o.Features = in.Features
		if r := recover(); r != nil {
			switch e := r.(type) {
			case *Unspecified:
				o.Unspecified = e.Why
			case *RuntimeError:
				o.Laufzeitfehler, o.Why = true, e.Why
			case error:
				if e == errBudget {
					o.Budget = true
					return
				}
				panic(r)
			default:
				panic(r)
			}
		}
	}()
	in.block(fr, p.Prelude, false)
	in.block(fr, p.Main, false)
	return
}

func (in *Interp) tick() {
	in.steps++
	if in.steps > in.maxSteps {
		panic(errBudget)
	}
}

func (fr *frame) lookup(name string) *Value {
	for i := len(fr.vars) - 1; i >= 0; i-- {
		if v, ok := fr.vars[i][name]; ok {
			return v
		}
	}
	panic("ref: undefined variable " + name)
}

func (fr *frame) declare(name string, v Value) {
	vv := v
	fr.vars[len(fr.vars)-1][name] = &vv
}

func (in *Interp) block(fr *frame, body []gen.Stmt, newScope bool) ctl {
	if newScope {
		fr.vars = append(fr.vars, map[string]*Value{})
		defer func() { fr.vars = fr.vars[:len(fr.vars)-1] }()
	}
	for _, s := range body {
		if c := in.stmt(fr, s); c != ctlNone {
			return c
		}
	}
	return ctlNone
}

func asInt(v Value) int64 {
	switch v := v.(type) {
	case int64:
		return v
	case uint8:
		return int64(v)
	}
	panic(fmt.Sprintf("ref: not an integer: %T", v))
}

func asFloat(v Value) float64 {
	switch v := v.(type) {
	case int64:
		return float64(v)
	case uint8:
		return float64(v)
	case float64:
		return v
	}
	panic(fmt.Sprintf("ref: not numeric: %T", v))
}

// numeric conversion on initialisation / assignment / explicit cast between numeric types
func convertNumeric(v Value, to *gen.Type) Value {
	switch to.K {
	case gen.KZahl:
		switch v := v.(type) {
		case int64:
			return v
		case uint8:
			return int64(v)
		case float64:
			if math.IsNaN(v) || v >= 9.3e18 || v <= -9.3e18 {
				panic(&Unspecified{"Kommazahl -> Zahl out of range"})
			}
			return int64(v) // truncation toward zero
		}
	case gen.KKomma:
		return asFloat(v)
	case gen.KByte:
		switch v := v.(type) {
		case uint8:
			return v
		case int64:
			return uint8(v) // modulo 256
		case float64:
			if math.IsNaN(v) || v >= 256 || v <= -1 {
				panic(&Unspecified{"Kommazahl -> Byte out of range"})
			}
			return uint8(v)
		}
	}
	panic(fmt.Sprintf("ref: bad numeric conversion %T -> %s", v, to))
}

func (in *Interp) stmt(fr *frame, s gen.Stmt) ctl {
	in.tick()
	switch s := s.(type) {
	case *gen.VarDecl:
		v := in.initValue(fr, s.Init, s.T)
		fr.declare(s.Name, v)
	case *gen.Assign:
		v := in.eval(fr, s.X)
		loc, setText := in.locate(fr, s.Target)
		if s.Target.T.IsNumeric() {
			v = convertNumeric(v, s.Target.T)
		}
		if setText != nil {
			setText(v.(rune))
		} else {
			*loc = Copy(v)
		}
	case *gen.Compound:
		loc, setText := in.locate(fr, s.Target)
		if setText != nil {
			panic("ref: compound assignment to a text character")
		}
		cur := *loc
		var res Value
		if s.Op == "negiere" {
			res = !cur.(bool)
		} else {
			x := in.eval(fr, s.X)
			op := map[string]string{"erhoehe": "plus", "verringere": "minus", "vervielfache": "mal", "teile": "durch"}[s.Op]
			res = in.arith(op, cur, x)
			res = convertNumeric(res, s.Target.T)
		}
		*loc = res
	case *gen.If:
		if in.eval(fr, s.Cond).(bool) {
			return in.block(fr, s.Then, true)
		}
		for _, e := range s.Elifs {
			if in.eval(fr, e.Cond).(bool) {
				return in.block(fr, e.Body, true)
			}
		}
		if s.Else != nil {
			return in.block(fr, s.Else, true)
		}
	case *gen.While:
		for in.eval(fr, s.Cond).(bool) {
			in.tick()
			if c := in.block(fr, s.Body, true); c == ctlBreak {
				break
			} else if c == ctlReturn {
				return c
			}
		}
	case *gen.DoWhile:
		for {
			in.tick()
			if c := in.block(fr, s.Body, true); c == ctlBreak {
				break
			} else if c == ctlReturn {
				return c
			}
			if !in.eval(fr, s.Cond).(bool) {
				break
			}
		}
	case *gen.RepeatN:
		n := asInt(in.eval(fr, s.N))
		if n < 0 {
			panic(&Unspecified{"negative repetition count"})
		}
		for i := int64(0); i < n; i++ {
			in.tick()
			if c := in.block(fr, s.Body, true); c == ctlBreak {
				break
			} else if c == ctlReturn {
				return c
			}
		}
	case *gen.ForCount:
		return in.forCount(fr, s)
	case *gen.ForEach:
		coll := Copy(in.eval(fr, s.Coll)) // the loop runs over the value the collection had at loop entry
		var elems []Value
		if t, ok := coll.(string); ok {
			for _, r := range t {
				elems = append(elems, r)
			}
		} else {
			elems = coll.(*List).Elems
		}
		for i, e := range elems {
			in.tick()
			fr.vars = append(fr.vars, map[string]*Value{})
			fr.declare(s.Var, Copy(e))
			if s.Index != "" {
				fr.declare(s.Index, int64(i+1))
			}
			c := in.block(fr, s.Body, true)
			fr.vars = fr.vars[:len(fr.vars)-1]
			if c == ctlBreak {
				break
			} else if c == ctlReturn {
				return c
			}
		}
	case *gen.Break:
		return ctlBreak
	case *gen.Continue:
		return ctlContinue
	case *gen.Return:
		if s.X != nil {
			fr.retVal = Copy(in.eval(fr, s.X))
		}
		return ctlReturn
	case *gen.Print:
		in.out.WriteString(Format(in.eval(fr, s.X)))
		in.out.WriteString("\n")
		if in.out.Len() > 8<<20 { // such a program is of no use as a test case (and would exhaust memory)
			panic(errBudget)
		}
	case *gen.CallStmt:
		in.call(fr, s.C)
	case *gen.Block:
		return in.block(fr, s.Body, true)
	case *gen.Raw:
		panic(&Unspecified{"raw statement"})
	default:
		panic(fmt.Sprintf("ref: statement %T", s))
	}
	return ctlNone
}

func (in *Interp) initValue(fr *frame, init gen.Expr, t *gen.Type) Value {
	v := in.eval(fr, init)
	if t.IsNumeric() {
		v = convertNumeric(v, t)
	}
	return Copy(v)
}

func (in *Interp) forCount(fr *frame, s *gen.ForCount) ctl {
	from := convertNumeric(in.eval(fr, s.From), s.T)
	fr.vars = append(fr.vars, map[string]*Value{})
	defer func() { fr.vars = fr.vars[:len(fr.vars)-1] }()
	fr.declare(s.Var, from)
	loc := fr.lookup(s.Var)
	isF := s.T.K == gen.KKomma
	// the step is evaluated once, the end value on every iteration (generators only use frozen operands)
	var stepV Value = int64(1)
	if s.Step != nil {
		stepV = in.eval(fr, s.Step)
	}
	if isF {
		idx := asFloat(*loc)
		step := asFloat(stepV)
		for {
			in.tick()
			to := asFloat(in.eval(fr, s.To))
			if step < 0 {
				if !(idx >= to) {
					break
				}
			} else if !(idx <= to) {
				break
			}
			c := in.block(fr, s.Body, true)
			if c == ctlBreak {
				break
			} else if c == ctlReturn {
				return c
			}
			idx += step
			*loc = idx
		}
		return ctlNone
	}
	if f, ok := stepV.(float64); ok {
		_ = f
		panic(&Unspecified{"Kommazahl step with integer counter"})
	}
	step := asInt(stepV)
	idx := asInt(*loc) // Byte counters are compared in Zahl arithmetic
	for {
		in.tick()
		tv := in.eval(fr, s.To)
		if _, ok := tv.(float64); ok {
			panic(&Unspecified{"Kommazahl end value with integer counter"})
		}
		to := asInt(tv)
		if step < 0 {
			if !(idx >= to) {
				break
			}
		} else if !(idx <= to) {
			break
		}
		c := in.block(fr, s.Body, true)
		if c == ctlBreak {
			break
		} else if c == ctlReturn {
			return c
		}
		idx += step // wraps like int64
		*loc = convertNumeric(idx, s.T)
	}
	return ctlNone
}

// locate returns the storage designated by an lvalue; for a character of a Text it returns a setter instead.
func (in *Interp) locate(fr *frame, l gen.LValue) (*Value, func(rune)) {
	loc := fr.lookup(l.Root)
	for i, st := range l.Path {
		if st.Field != "" {
			sv := (*loc).(*Struct)
			idx := -1
			for j, f := range sv.S.Fields {
				if f.Name == st.Field {
					idx = j
				}
			}
			loc = &sv.Fields[idx]
			continue
		}
		n := asInt(in.eval(fr, st.Index))
		switch c := (*loc).(type) {
		case *List:
			if n < 1 || n > int64(len(c.Elems)) {
				panic(&RuntimeError{fmt.Sprintf("index %d out of range 1..%d", n, len(c.Elems))})
			}
			loc = &c.Elems[n-1]
		case string:
			if i != len(l.Path)-1 {
				panic("ref: text index must be last")
			}
			rs := []rune(c)
			if n < 1 || n > int64(len(rs)) {
				panic(&RuntimeError{fmt.Sprintf("text index %d out of range 1..%d", n, len(rs))})
			}
			target := loc
			return nil, func(r rune) {
				rs[n-1] = r
				*target = string(rs)
			}
		default:
			panic(fmt.Sprintf("ref: cannot index %T", c))
		}
	}
	return loc, nil
}

func (in *Interp) call(fr *frame, c *gen.Call) Value {
	in.tick()
	nf := &frame{vars: []map[string]*Value{in.globals, {}}}
	// arguments are evaluated left to right in parameter order
	for i, p := range c.F.Params {
		if p.Ref {
			ref, ok := c.Args[i].(*gen.Ref)
			if ok {
				nf.vars[1][p.Name] = fr.lookup(ref.Name) // alias the caller's storage
				continue
			}
			lv, ok := c.Args[i].(*gen.LRef)
			if !ok {
				panic("ref: Referenz argument must be a variable or lvalue")
			}
			loc, setter := in.locate(fr, lv.L)
			if setter != nil {
				panic("ref: text character passed by reference")
			}
			nf.vars[1][p.Name] = loc
			continue
		}
		v := Copy(in.eval(fr, c.Args[i]))
		nf.vars[1][p.Name] = &v
	}
	if len(fr.vars) > 0 {
		depth++
		if depth > 200 {
			panic(errBudget)
		}
		defer func() { depth-- }()
	}
	in.block(nf, c.F.Body, true)
	return nf.retVal
}

var depth int


// ---------------------------------------------------------------- expressions

func (in *Interp) eval(fr *frame, e gen.Expr) Value {
	in.tick()
	switch e := e.(type) {
	case *gen.Lit:
		switch e.T.K {
		case gen.KZahl:
			return e.I
		case gen.KKomma:
			return e.F
		case gen.KByte:
			return uint8(e.I)
		case gen.KBool:
			return e.B
		case gen.KChar:
			return e.C
		case gen.KText:
			return e.S
		}
	case *gen.ListLit:
		l := &List{}
		for _, x := range e.Elems {
			l.Elems = append(l.Elems, Copy(in.eval(fr, x)))
		}
		return l
	case *gen.EmptyList:
		return &List{}
	case *gen.Repeat:
		n := asInt(in.eval(fr, e.N))
		x := in.eval(fr, e.X)
		if n < 0 {
			panic(&Unspecified{"negative list count"})
		}
		if n > 10000 {
			panic(&Unspecified{"huge list count"})
		}
		l := &List{}
		for i := int64(0); i < n; i++ {
			l.Elems = append(l.Elems, Copy(x))
		}
		return l
	case *gen.DefaultOf:
		return Default(e.T)
	case *gen.Ref:
		return *fr.lookup(e.Name)
	case *gen.LRef:
		loc, setter := in.locate(fr, e.L)
		if setter != nil {
			panic("ref: reading text char via LValueExpr")
		}
		return *loc
	case *gen.Un:
		x := in.eval(fr, e.X)
		switch e.Op {
		case "neg":
			switch x := x.(type) {
			case int64:
				return -x // wraps for the minimum
			case float64:
				return -x
			case uint8:
				return -int64(x) // Byte negates to Zahl
			}
		case "abs":
			switch x := x.(type) {
			case int64:
				if x < 0 {
					return -x
				}
				return x
			case float64:
				if x < 0 {
					return 0 - x
				}
				return x
			case uint8:
				return int64(x)
			}
		case "not":
			return !x.(bool)
		case "lnot":
			switch x := x.(type) {
			case int64:
				return ^x
			case uint8:
				return ^x
			}
		case "len":
			switch x := x.(type) {
			case string:
				return int64(len([]rune(x)))
			case *List:
				return int64(len(x.Elems))
			}
		}
		panic(fmt.Sprintf("ref: unary %s on %T", e.Op, x))
	case *gen.Bin:
		switch e.Op {
		case "und":
			in.feat("und")
			if !in.eval(fr, e.L).(bool) {
				in.feat("und:short-circuit")
				return false
			}
			return in.eval(fr, e.R).(bool)
		case "oder":
			in.feat("oder")
			if in.eval(fr, e.L).(bool) {
				in.feat("oder:short-circuit")
				return true
			}
			return in.eval(fr, e.R).(bool)
		}
		l := in.eval(fr, e.L)
		r := in.eval(fr, e.R)
		return in.binary(e.Op, l, r)
	case *gen.Between:
		x, a, b := in.eval(fr, e.X), in.eval(fr, e.A), in.eval(fr, e.B)
		_, fx := x.(float64)
		_, fa := a.(float64)
		_, fb := b.(float64)
		if fx || fa || fb {
			xf, af, bf := asFloat(x), asFloat(a), asFloat(b)
			return (xf > bf && xf < af) || (xf > af && xf < bf)
		}
		xi, ai, bi := asInt(x), asInt(a), asInt(b)
		return (xi > bi && xi < ai) || (xi > ai && xi < bi)
	case *gen.Falls:
		if in.eval(fr, e.Cond).(bool) {
			return in.eval(fr, e.Then)
		}
		return in.eval(fr, e.Else)
	case *gen.Cast:
		return in.cast(in.eval(fr, e.X), e.X.Type(), e.T)
	case *gen.Slice:
		return in.slice(in.eval(fr, e.X), asInt(in.eval(fr, e.From)), asInt(in.eval(fr, e.To)))
	case *gen.SliceTo:
		return in.slice(in.eval(fr, e.X), 1, asInt(in.eval(fr, e.N)))
	case *gen.SliceFrom:
		x := in.eval(fr, e.X)
		n := asInt(in.eval(fr, e.N))
		var ln int64
		if t, ok := x.(string); ok {
			ln = int64(len([]rune(t)))
		} else {
			ln = int64(len(x.(*List).Elems))
		}
		return in.slice(x, n, ln)
	case *gen.FieldGet:
		sv := in.eval(fr, e.X).(*Struct)
		for j, f := range sv.S.Fields {
			if f.Name == e.Name {
				return sv.Fields[j]
			}
		}
		panic("ref: no field " + e.Name)
	case *gen.Call:
		return in.call(fr, e)
	case *gen.StructLit:
		sv := &Struct{S: e.S}
		for i, a := range e.Args {
			v := in.eval(fr, a)
			if e.S.Fields[i].T.IsNumeric() {
				v = convertNumeric(v, e.S.Fields[i].T)
			}
			sv.Fields = append(sv.Fields, Copy(v))
		}
		return sv
	}
	panic(fmt.Sprintf("ref: expression %T", e))
}

func (in *Interp) slice(x Value, from, to int64) Value {
	var n int64
	t, isText := x.(string)
	var rs []rune
	if isText {
		rs = []rune(t)
		n = int64(len(rs))
	} else {
		n = int64(len(x.(*List).Elems))
	}
	if n == 0 { // an empty text/list slices to empty
		if isText {
			return ""
		}
		return &List{}
	}
	clamp := func(v int64) int64 {
		if v < 1 {
			return 1
		}
		if v > n {
			return n
		}
		return v
	}
	from, to = clamp(from), clamp(to)
	if to < from {
		panic(&RuntimeError{fmt.Sprintf("slice bounds crossed: %d..%d", from, to)})
	}
	if isText {
		return string(rs[from-1 : to])
	}
	l := &List{}
	for _, e := range x.(*List).Elems[from-1 : to] {
		l.Elems = append(l.Elems, Copy(e))
	}
	return l
}

// arith: plus minus mal durch on numeric values with promotion Byte < Zahl < Kommazahl
func (in *Interp) arith(op string, l, r Value) Value {
	if op == "durch" {
		return asFloat(l) / asFloat(r)
	}
	_, lf := l.(float64)
	_, rf := r.(float64)
	if lf || rf {
		a, b := asFloat(l), asFloat(r)
		switch op {
		case "plus":
			return a + b
		case "minus":
			return a - b
		case "mal":
			return a * b
		}
	}
	lb, lisb := l.(uint8)
	rb, risb := r.(uint8)
	if lisb && risb {
		switch op {
		case "plus":
			return lb + rb
		case "minus":
			return lb - rb
		case "mal":
			return lb * rb
		}
	}
	a, b := asInt(l), asInt(r)
	switch op {
	case "plus":
		return a + b
	case "minus":
		return a - b
	case "mal":
		return a * b
	}
	panic("ref: arith " + op)
}

func (in *Interp) binary(op string, l, r Value) Value {
	switch op {
	case "plus", "minus", "mal", "durch":
		return in.arith(op, l, r)
	case "modulo":
		lb, lisb := l.(uint8)
		rb, risb := r.(uint8)
		if lisb && risb {
			if rb == 0 {
				panic(&Unspecified{"modulo 0"})
			}
			return lb % rb
		}
		a, b := asInt(l), asInt(r)
		if b == 0 || (a == math.MinInt64 && b == -1) {
			panic(&Unspecified{"modulo 0 / overflow"})
		}
		return a % b // sign follows the dividend (srem)
	case "xor":
		return l.(bool) != r.(bool)
	case "gleich":
		return Equal(l, r)
	case "ungleich":
		return !Equal(l, r)
	case "kleiner", "groesser", "kleinergleich", "groessergleich":
		_, lf := l.(float64)
		_, rf := r.(float64)
		var c int
		if lf || rf {
			a, b := asFloat(l), asFloat(r)
			if math.IsNaN(a) || math.IsNaN(b) {
				return false
			}
			switch {
			case a < b:
				c = -1
			case a > b:
				c = 1
			}
		} else {
			a, b := asInt(l), asInt(r)
			switch {
			case a < b:
				c = -1
			case a > b:
				c = 1
			}
		}
		switch op {
		case "kleiner":
			return c < 0
		case "groesser":
			return c > 0
		case "kleinergleich":
			return c <= 0
		default:
			return c >= 0
		}
	case "land", "lor", "lxor":
		lb, lisb := l.(uint8)
		rb, risb := r.(uint8)
		if lisb && risb {
			switch op {
			case "land":
				return lb & rb
			case "lor":
				return lb | rb
			default:
				return lb ^ rb
			}
		}
		a, b := asInt(l), asInt(r)
		switch op {
		case "land":
			return a & b
		case "lor":
			return a | b
		default:
			return a ^ b
		}
	case "shl", "shr":
		n := asInt(r)
		switch a := l.(type) {
		case int64:
			if n < 0 || n > 63 {
				panic(&Unspecified{"shift count outside 0..63"})
			}
			if op == "shl" {
				return int64(uint64(a) << uint(n))
			}
			return int64(uint64(a) >> uint(n)) // logical shift
		case uint8:
			if n < 0 || n > 7 {
				panic(&Unspecified{"shift count outside 0..7"})
			}
			if op == "shl" {
				return a << uint(n)
			}
			return a >> uint(n)
		}
	case "concat":
		v := concat(l, r)
		// values that double in a loop outgrow any memory long before the step budget ends
		if t, ok := v.(string); ok && len(t) > 1<<20 {
			panic(errBudget)
		}
		if lst, ok := v.(*List); ok && len(lst.Elems) > 1<<16 {
			panic(errBudget)
		}
		return v
	case "index":
		n := asInt(r)
		switch c := l.(type) {
		case string:
			rs := []rune(c)
			if n < 1 || n > int64(len(rs)) {
				panic(&RuntimeError{fmt.Sprintf("text index %d out of range 1..%d", n, len(rs))})
			}
			return rs[n-1]
		case *List:
			if n < 1 || n > int64(len(c.Elems)) {
				panic(&RuntimeError{fmt.Sprintf("index %d out of range 1..%d", n, len(c.Elems))})
			}
			return c.Elems[n-1]
		}
	}
	panic(fmt.Sprintf("ref: binary %s on %T,%T", op, l, r))
}

func concat(l, r Value) Value {
	ls, lIsText := l.(string)
	rs, rIsText := r.(string)
	lc, lIsChar := l.(rune)
	rc, rIsChar := r.(rune)
	ll, lIsList := l.(*List)
	rl, rIsList := r.(*List)
	switch {
	case lIsText && rIsText:
		return ls + rs
	case lIsText && rIsChar:
		return ls + string(rc)
	case lIsChar && rIsText:
		return string(lc) + rs
	case lIsList && rIsList:
		n := Copy(ll).(*List)
		n.Elems = append(n.Elems, Copy(rl).(*List).Elems...)
		return n
	case lIsList:
		n := Copy(ll).(*List)
		n.Elems = append(n.Elems, Copy(r))
		return n
	case rIsList:
		n := &List{Elems: []Value{Copy(l)}}
		n.Elems = append(n.Elems, Copy(rl).(*List).Elems...)
		return n
	default: // scalar + scalar -> two-element list
		return &List{Elems: []Value{Copy(l), Copy(r)}}
	}
}

func (in *Interp) cast(v Value, from, to *gen.Type) Value {
	switch to.K {
	case gen.KZahl:
		switch x := v.(type) {
		case int64, uint8, float64:
			return convertNumeric(v, to)
		case bool:
			if x {
				return int64(1)
			}
			return int64(0)
		case rune:
			return int64(x)
		case string:
			return textToInt(x)
		}
	case gen.KKomma:
		switch x := v.(type) {
		case int64, uint8, float64:
			return convertNumeric(v, to)
		case string:
			return textToFloat(x)
		}
	case gen.KByte:
		switch x := v.(type) {
		case int64, uint8, float64:
			return convertNumeric(v, to)
		case bool:
			if x {
				return uint8(1)
			}
			return uint8(0)
		case rune:
			return uint8(x)
		case string:
			return uint8(textToInt(x))
		}
	case gen.KBool:
		switch x := v.(type) {
		case int64:
			return x != 0
		case uint8:
			return x != 0
		case bool:
			return x
		}
	case gen.KChar:
		switch x := v.(type) {
		case int64:
			return rune(int32(x))
		case uint8:
			return rune(x)
		case rune:
			return x
		}
	case gen.KText:
		if s, ok := v.(string); ok {
			return s
		}
		if f, ok := v.(float64); ok && (math.IsInf(f, 0) || math.IsNaN(f)) {
			// output statements print "Unendlich" / "Keine Zahl (NaN)", the conversion uses C's rendering
			// ("inf", "nan"); nothing states which one a conversion to Text has to produce
			panic(&Unspecified{"non-finite Kommazahl -> Text"})
		}
		return Format(v)
	case gen.KList:
		if l, ok := v.(*List); ok {
			return l
		}
		return &List{Elems: []Value{Copy(v)}}
	}
	panic(fmt.Sprintf("ref: cast %T -> %s", v, to))
}

// Text -> Zahl: only canonical decimal texts are in the specified domain
func textToInt(s string) int64 {
	n, err := strconv.ParseInt(s, 10, 64)
	if err != nil || strconv.FormatInt(n, 10) != s {
		if s == "" {
			return 0
		}
		panic(&Unspecified{"Text -> Zahl on a non-canonical text"})
	}
	return n
}

func textToFloat(s string) float64 {
	if s == "" {
		return 0
	}
	panic(&Unspecified{"Text -> Kommazahl"})
}

// ---------------------------------------------------------------- output formats

// FormatFloat emulates C's "%.16g" in the de_DE locale plus the runtime's special values.
func FormatFloat(f float64) string {
	switch {
	case math.IsInf(f, 1):
		return "Unendlich"
	case math.IsInf(f, -1):
		return "-Unendlich"
	case math.IsNaN(f):
		return "Keine Zahl (NaN)"
	}
	s := strconv.FormatFloat(f, 'g', 16, 64)
	// Go prints exponents as e+16 / e-07 like C; decimal point -> comma
	return strings.Replace(s, ".", ",", 1)
}

func Format(v Value) string {
	switch v := v.(type) {
	case int64:
		return strconv.FormatInt(v, 10)
	case uint8:
		return strconv.Itoa(int(v))
	case float64:
		return FormatFloat(v)
	case bool:
		if v {
			return "wahr"
		}
		return "falsch"
	case rune:
		if v == 0 {
			return ""
		}
		return string(v)
	case string:
		return v
	case *List:
		parts := make([]string, len(v.Elems))
		for i, e := range v.Elems {
			parts[i] = Format(e)
		}
		return strings.Join(parts, ", ")
	}
	panic(fmt.Sprintf("ref: cannot format %T", v))
}
