package ref

import (
	"bufio"
	"fmt"
	"math"
	"math/rand"
	"os"
	"os/exec"
	"path/filepath"
	"strings"
	"testing"
)

// FormatFloat must agree with C's printf("%.16g") (decimal point replaced) on random and boundary doubles.
func TestFormatFloatAgainstPrintf(t *testing.T) {
	dir := t.TempDir()
	src := filepath.Join(dir, "p.c")
	os.WriteFile(src, []byte(`#include <stdio.h>
#include <stdint.h>
#include <string.h>
int main(void){ uint64_t b; while (scanf("%lx", &b) == 1) { double d; memcpy(&d,&b,8); printf("%.16g\n", d);} return 0; }`), 0o644)
	exe := filepath.Join(dir, "p")
	if out, err := exec.Command("gcc", "-O1", "-o", exe, src).CombinedOutput(); err != nil {
		t.Skipf("no gcc: %v %s", err, out)
	}
	rng := rand.New(rand.NewSource(1))
	var vals []float64
	for _, f := range []float64{0, 1, -1, 0.1, 0.5, 1e15, 1e16, 1e17, 123456789012345678, 1e-4, 1e-5, 9.999999999999999e-5, 1.0 / 3, 2.5, 1e300, 5e-324, 4.35, 100, 1e21, 0.30000000000000004, 12345.678} {
		vals = append(vals, f, -f)
	}
	for i := 0; i < 200000; i++ {
		switch i % 4 {
		case 0:
			vals = append(vals, math.Float64frombits(rng.Uint64()))
		case 1:
			vals = append(vals, float64(rng.Int63n(1<<53))/float64(int64(1)<<uint(rng.Intn(60))))
		case 2:
			vals = append(vals, float64(rng.Intn(2000000)-1000000)/float64([]int{1, 2, 4, 8, 10, 100, 1000, 3, 7}[rng.Intn(9)]))
		default:
			vals = append(vals, math.Ldexp(rng.Float64(), rng.Intn(200)-100))
		}
	}
	var in strings.Builder
	var kept []float64
	for _, v := range vals {
		if math.IsNaN(v) || math.IsInf(v, 0) {
			continue
		}
		kept = append(kept, v)
		fmt.Fprintf(&in, "%x\n", math.Float64bits(v))
	}
	cmd := exec.Command(exe)
	cmd.Stdin = strings.NewReader(in.String())
	out, err := cmd.Output()
	if err != nil {
		t.Fatal(err)
	}
	sc := bufio.NewScanner(strings.NewReader(string(out)))
	i := 0
	bad := 0
	for sc.Scan() {
		want := strings.Replace(sc.Text(), ".", ",", 1)
		if got := FormatFloat(kept[i]); got != want {
			bad++
			if bad < 10 {
				t.Errorf("FormatFloat(%x = %v) = %q, printf gives %q", math.Float64bits(kept[i]), kept[i], got, want)
			}
		}
		i++
	}
	if i != len(kept) {
		t.Fatalf("printf answered %d of %d", i, len(kept))
	}
	t.Logf("compared %d doubles", i)
}
