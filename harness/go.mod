module verif

go 1.24.0

require (
	github.com/DDP-Projekt/Kompilierer v0.0.0
	pgregory.net/rapid v1.3.0
)

require golang.org/x/exp v0.0.0-20240613232115-7f521ea00fb8 // indirect

replace github.com/DDP-Projekt/Kompilierer => /repo
