module verif

go 1.24.0

require (
	github.com/DDP-Projekt/Kompilierer v0.0.0
	pgregory.net/rapid v1.3.0
)

replace github.com/DDP-Projekt/Kompilierer => /repo
