#!/usr/bin/env python3
"""ddmin.py <case.json> <regex> [probe-binary]: line- then token-level delta debugging of a frontend crash input (source-only cases)."""
import json, os, re, subprocess, sys
case, pat = sys.argv[1], re.compile(sys.argv[2])
probe = sys.argv[3] if len(sys.argv) > 3 else "/verif/.work/bin/feprobe"
c = json.load(open(case)); c = c.get("case", c)
src = c["source_text"]; main = c.get("main", "w.ddp")
env = dict(os.environ, DDPPATH="/verif/.work/ddppath-x")
d = os.path.dirname(main) if os.path.isabs(main) else "/tmp/wt"
tmp = os.path.join(d if os.access(d, os.W_OK) else "/tmp/wt", "zz_ddmin.ddp")
def bad(s):
    open(tmp, "w").write(s)
    try:
        r = subprocess.run([probe, tmp], capture_output=True, text=True, env=env, timeout=120)
        out = r.stdout + r.stderr
    except subprocess.TimeoutExpired:
        out = "TIMEOUT"
    return bool(pat.search(out))
assert bad(src), "does not reproduce"
def ddmin(items, join):
    n = 2
    while len(items) >= 2:
        chunk = max(1, len(items) // n); red = False
        for i in range(0, len(items), chunk):
            cand = items[:i] + items[i + chunk:]
            if bad(join(cand)):
                items = cand; n = max(n - 1, 2); red = True; break
        if not red:
            if chunk == 1: break
            n = min(n * 2, len(items))
    return items
lines = ddmin(src.split("\n"), "\n".join)
print("\n".join(lines)); print("-----")
os.remove(tmp)
