#!/bin/bash
# batch_quiet.sh <seed...> : every quick check on the unchanged tree at the given seeds
cd /verif
for s in "$@"; do for c in C01 C02 C03 C04 C05 C06 C07 C08 C09 C10 C11 C12 C13 C14 C15 C16 C17 C18 C19 C20; do
	VERIF_SEED=$s ./run.sh $c quick 2>&1 | grep -v "^KNOWN-FINDING" | tail -2 | cut -c1-300
done; done
