#!/usr/bin/env python3
"""Regenerates the tables of DESIGN.md section 10.3 (repaired defects) and 10.4 (seeded changes)
from known_findings.json and seeded/*/meta.json (between the BEGIN/END markers)."""
import json, glob, os, re
fs = json.load(open('/verif/known_findings.json'))
fixed = [f for f in fs if f['status'] == 'fixed']
rows = ["| property | commit | what failed |", "|---|---|---|"]
for f in fixed:
    rows.append(f"| {f['property']} | `{f.get('commit','')}` | {f['what'][:230].replace('|','/')} |")
seeds = ["| seed | what it breaks | caught by the property's own check in |", "|---|---|---|"]
for d in sorted(glob.glob('/verif/seeded/*/')):
    m = json.load(open(d + 'meta.json'))
    det = m.get('detected_by_check') or ''
    det = {'yes': 'quick'}.get(det, det)
    br = (m.get('breaks') or '').replace('\n', ' ').replace('|', '/')
    br = br[:170] + ('…' if len(br) > 170 else '')
    seeds.append(f"| {os.path.basename(d[:-1])} | {br} | {det} |")
s = open('/verif/DESIGN.md').read()
def put(s, name, lines):
    b, e = f"<!-- BEGIN {name} -->", f"<!-- END {name} -->"
    i, j = s.index(b), s.index(e)
    return s[:i + len(b)] + "\n" + "\n".join(lines) + "\n" + s[j:]
s = put(s, "fixed-table", rows)
s = put(s, "seeded-table", seeds)
s = re.sub(r"\d+ witnesses are replayed on every run", f"{len(fixed)} witnesses are replayed on every run", s)
open('/verif/DESIGN.md', 'w').write(s)
print(len(fixed), "fixed,", len(seeds) - 2, "seeds")
