#!/bin/bash
# confirm_demo.sh <ID> <letter> <script relative to /tmp/wt/<ID>-out/demo<letter>/> : run a script-style demo (script <worktree>) with and without the patch
ID=$1; L=$2; S=$3
WT=/tmp/wt/confirm; [ -d $WT ] || git -C /repo worktree add -q --detach $WT HEAD
git -C $WT checkout -q --detach main && git -C $WT reset -q --hard main && git -C $WT clean -fdq
D=/tmp/wt/$ID-out/demo$L
bash $D/$S $WT >/tmp/wt/confirm_$ID$L.clean.log 2>&1; echo "$ID-$L without patch: exit $?"
git -C $WT apply /tmp/wt/$ID-out/patch$L.diff || { echo "$ID-$L PATCH DOES NOT APPLY"; exit 3; }
bash $D/$S $WT >/tmp/wt/confirm_$ID$L.patched.log 2>&1; echo "$ID-$L with patch: exit $?"
git -C $WT reset -q --hard main && git -C $WT clean -fdq
