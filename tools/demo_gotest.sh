#!/bin/bash
# demo_gotest.sh <patch.diff> <test_file.go> <dest dir relative to repo> <-run regex> : run a Go-test demo without and with the patch in the scratch worktree
PATCH=$(realpath "$1"); TF=$(realpath "$2"); DEST=$3; RUN=$4
WT=/tmp/wt/mine
git -C $WT checkout -q --detach main && git -C $WT reset -q --hard main && git -C $WT clean -fdq
cp "$TF" $WT/$DEST/
echo "== without patch"; (cd $WT && GOPROXY=off GOFLAGS=-mod=mod go test -vet=off -count=1 -run "$RUN" ./$DEST/ 2>&1 | tail -3)
git -C $WT apply "$PATCH" || { echo "PATCH DOES NOT APPLY"; exit 3; }
echo "== with patch"; (cd $WT && GOPROXY=off GOFLAGS=-mod=mod go test -vet=off -count=1 -run "$RUN" ./$DEST/ 2>&1 | grep -e FAIL -e ok -e '---' | head -8)
git -C $WT reset -q --hard main && git -C $WT clean -fdq
