#!/bin/bash
# batch_regress.sh : re-run every seeded change through its property's quick check (sensitivity regression)
cd /verif
for d in seeded/*/; do
	n=$(basename $d); id=${n%-*}
	res=$(tools/seedcheck.sh $id $d/patch.diff quick 2>&1 | tail -4 | tr '\n' ' ' | cut -c1-260)
	echo "$n: $res"
done
