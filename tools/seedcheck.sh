#!/bin/bash
# seedcheck.sh <property> <patch.diff> [quick|thorough] : apply a seeded change in the scratch worktree, run baseline + check, revert.
ID=$1; PATCH=$(realpath "$2"); TIER=${3:-quick}
WT=/tmp/wt/mine
[ -d $WT ] || git -C /repo worktree add -q --detach $WT HEAD
git -C $WT checkout -q --detach main && git -C $WT reset -q --hard main && git -C $WT clean -fdq
git -C $WT apply "$PATCH" || { echo "PATCH DOES NOT APPLY"; exit 3; }
echo "== baseline with patch"; VERIF_REPO=$WT /verif/baseline.sh >/dev/null 2>&1 && echo "baseline: pass" || echo "baseline: FAIL"
echo "== check $ID $TIER"; VERIF_REPO=$WT /verif/run.sh $ID $TIER 2>&1 | grep -v "^shard logs" | cut -c1-600 | tail -${SEEDCHECK_TAIL:-8}; echo "rc=${PIPESTATUS[0]}"
git -C $WT reset -q --hard main && git -C $WT clean -fdq
