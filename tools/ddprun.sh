#!/bin/bash
# tools/ddprun.sh <file.ddp> [O-level] [asan] : compile with the kddp built from the current tree and run (debug helper)
set -u
f=$(realpath "$1")
cd "$(dirname "$0")/.."
h=$(./build.sh --hash); W=$PWD/.work/$h
[ -x "$W/ddp/bin/kddp" ] || ./build.sh >/dev/null || exit 2
export DDPPATH=$W/ddp LOCPATH=$W/locale
o=${2:-2}; d=$(mktemp -d /tmp/ddprun.XXXX)
if [ "${3:-}" = asan ]; then
  ( cd "$(dirname "$f")" && "$DDPPATH/bin/kddp" kompiliere "$f" -o "$d/prog.o" -O "$o" ) || { echo "compile rc=$?"; rm -rf "$d"; exit 1; }
  L=$W/ddp-asan/lib
  gcc -o "$d/prog" -fsanitize=address,undefined "$d/prog.o" "$W/obj/memledger.o" -Wl,--wrap=ddp_reallocate -L"$L" -lddpstdlib -lddpruntime -lm "$L/main.o" || { rm -rf "$d"; exit 1; }
  ASAN_OPTIONS=exitcode=99:detect_leaks=1 "$d/prog" 2>&1 | grep -v '^    #[1-9][0-9]\|^$' | head -${LINES_MAX:-25}; rc=${PIPESTATUS[0]}
else
  ( cd "$(dirname "$f")" && "$DDPPATH/bin/kddp" kompiliere "$f" -o "$d/prog" -O "$o" ) || { echo "compile rc=$?"; rm -rf "$d"; exit 1; }
  "$d/prog"; rc=$?
fi
rm -rf "$d"; echo "[rc=$rc]"
