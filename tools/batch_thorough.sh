#!/bin/bash
# batch_thorough.sh [scale] [ids...] : thorough tier of the given checks (default all), optionally scaled down
cd /verif
sc=${1:-1}; shift
ids=${@:-C14 C13 C20 C19 C09 C12 C03 C07 C10 C17 C15 C18 C05 C16 C04 C08 C11 C01 C06 C02}
for c in $ids; do
	VERIF_SCALE=$sc ./run.sh $c thorough 2>&1 | grep -v "^KNOWN-FINDING" | tail -3 | cut -c1-300
done
