#!/bin/bash
# Runs the upstream golden programs (tests/testdata/kddp) through the build of the current tree; prints failures.
REPO="${VERIF_REPO:-/repo}"
W=$(/verif/build.sh) || exit 2
export DDPPATH=$W/ddp LOCPATH=$W/locale
OUT=$(mktemp -d); pass=0; fail=0
run() {
	d=$1; n=$(echo "$d" | sed "s#$REPO/tests/testdata/kddp/##; s#/\$##; s#/#_#g")
	f=$(ls "$d"/*.ddp 2>/dev/null | grep -m1 "/$(basename "$d").ddp$"); [ -z "$f" ] && return
	[ -f "$d/expected.txt" ] || return
	( cd "$d" && timeout 60 $DDPPATH/bin/kddp kompiliere "$f" -o "$OUT/$n" >"$OUT/$n.log" 2>&1 ) || { echo "COMPILE-FAIL $n: $(head -c 300 "$OUT/$n.log")"; return 1; }
	inp=/dev/null; [ -f "$d/input.txt" ] && inp="$d/input.txt"
	( cd "$d" && timeout 20 "$OUT/$n" <"$inp" >"$OUT/$n.out" 2>/dev/null )
	if cmp -s "$OUT/$n.out" "$d/expected.txt"; then return 0; else echo "DIFF $n"; return 1; fi
}
for d in $(find "$REPO/tests/testdata/kddp" -type d); do
	if run "$d"; then pass=$((pass+1)); else [ -f "$d/expected.txt" ] && fail=$((fail+1)); fi
done
echo "goldens: pass=$pass fail=$fail"
rm -rf "$OUT"
