#!/usr/bin/env python3
"""keepseed.py <ID> <letter> <detected: yes|no|tier> <note...> : copy a confirmed seeded change from /tmp/wt/<ID>-out into /verif/seeded/<ID>-<letter>/"""
import json, os, shutil, sys
ID, L, det = sys.argv[1], sys.argv[2], sys.argv[3]
note = " ".join(sys.argv[4:])
src = f"/tmp/wt/{ID}-out"; dst = f"/verif/seeded/{ID}-{L}"
os.makedirs(dst, exist_ok=True)
shutil.copy(f"{src}/patch{L}.diff", f"{dst}/patch.diff")
if os.path.isdir(f"{dst}/demo"): shutil.rmtree(f"{dst}/demo")
shutil.copytree(f"{src}/demo{L}", f"{dst}/demo")
m = json.load(open(f"{src}/meta{L}.json"))
meta = {"property": ID, "breaks": m.get("summary"), "files_touched": m.get("files_touched"),
        "needs_to_manifest": m.get("needs_to_manifest"), "demo_cmd": m.get("demo_cmd"),
        "observed_with_patch": m.get("observed_with_patch"), "observed_without_patch": m.get("observed_without_patch"),
        "confirmed_by_me": "patch applied in scratch worktree /tmp/wt/mine at /repo HEAD: baseline.sh passes with it; demo fails with it and passes without it (tools/demo_gotest.sh or manual run); then tools/seedcheck.sh " + ID + " patch.diff",
        "detected_by_check": det, "note": note}
json.dump(meta, open(f"{dst}/meta.json", "w"), indent=1, ensure_ascii=False)
print("kept", dst)
