#!/usr/bin/env python3
"""handwitness.py <prop> <finding-id> <prog.ddp> <levels e.g. 2 or 0,1,2> <status> <commit|-> <what> [root cause]
Wraps a hand-written DDP program as a replay case of a program-level check (C01/C05/C08: source+levels,
expected stdout = the given file <prog>.expect if present) and registers it through mkwitness.py."""
import json, os, subprocess, sys, tempfile
prop, fid, prog, levels, status, commit, what = sys.argv[1:8]
root = sys.argv[8] if len(sys.argv) > 8 else ""
case = {"source": open(prog).read(), "levels": [int(x) for x in levels.split(",")], "features": ["hand-written"]}
exp = prog + ".expect"
if os.path.exists(exp):
    case["expect_stdout"] = open(exp).read()
w = {"signature": prop + ":witness", "detail": "hand-written witness", "case": case}
t = tempfile.NamedTemporaryFile("w", suffix=".json", delete=False)
json.dump(w, t, ensure_ascii=False); t.close()
subprocess.run(["/verif/tools/mkwitness.py", prop, fid, t.name, status, commit, what, root])
os.unlink(t.name)
