#!/usr/bin/env python3
"""mkwitness.py <prop> <finding-id> <case.json|replay dir> <status> <commit|-> <what> [root cause]
Copies a replay case to findings/<id>/case.json, appends to known_findings.json, and verifies it:
fixed -> fails on <commit>^ and passes on /repo HEAD; known -> fails on HEAD."""
import json, os, shutil, subprocess, sys
prop, fid, src, status, commit, what = sys.argv[1:7]
root = sys.argv[7] if len(sys.argv) > 7 else ""
if os.path.isdir(src): src = os.path.join(src, "case.json")
c = json.load(open(src))
sig = c.get("signature", "")
os.makedirs(f"/verif/findings/{fid}", exist_ok=True)
json.dump(c, open(f"/verif/findings/{fid}/case.json", "w"), ensure_ascii=False, indent=1)
def replay(repo):
    r = subprocess.run(["/verif/run.sh", prop, "--replay", f"/verif/findings/{fid}/case.json"], env=dict(os.environ, VERIF_REPO=repo), capture_output=True, text=True, errors="replace")
    return r.returncode, (r.stdout + r.stderr).strip().split("\n")[0][:200]
print("HEAD:", replay("/repo"))
if status == "fixed":
    wt = "/tmp/wt/mine"
    subprocess.run(["git", "-C", wt, "reset", "-q", "--hard", commit + "^"], check=True)
    # keep the verif hook available on old trees
    subprocess.run(f"git -C {wt} checkout -q main -- src/parser/verif_export.go 2>/dev/null", shell=True)
    print(commit + "^:", replay(wt))
    subprocess.run(["git", "-C", wt, "reset", "-q", "--hard", "main"], check=True)
    subprocess.run(["git", "-C", wt, "clean", "-fdq"], check=True)
fs = json.load(open("/verif/known_findings.json"))
fs = [f for f in fs if f["id"] != fid]
e = {"property": prop, "id": fid, "status": status, "signature": sig, "witness": f"findings/{fid}/case.json", "what": what, "root_cause": root}
if commit != "-": e["commit"] = commit
e["record"] = (f"fixed: property={prop} {commit} {what}" if status == "fixed" else f"KNOWN-FINDING: property={prop} {what}")
fs.append(e)
json.dump(fs, open("/verif/known_findings.json", "w"), indent=1, ensure_ascii=False)
