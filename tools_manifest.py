#!/usr/bin/env python3
"""Regenerates MANIFEST.json from checks.json (per-check metadata) + properties.jsonl."""
import json, os
V = os.path.dirname(os.path.abspath(__file__))
checks = json.load(open(os.path.join(V, "checks.json")))
props = [json.loads(l)["id"] for l in open(os.path.join(V, "properties.jsonl"))]
out = {
    "version": 1,
    "setup_cmd": "./setup.sh",
    "hooks": {
        "guard": "verif (Go build tag)",
        "enable": "harness test binaries are built with `go test -tags verif` against /repo via a replace directive; the kddp CLI under test is built without the tag",
        "baseline_off_cmd": "./baseline.sh",
        "source_commits": checks.get("_hook_commits", []),
        "add_only": True,
    },
    "engines": [{"name": "rapid-harness", "path": "harness/", "serves_properties": [c for c in props if c in checks],
                 "kind_free_text": "Go property-based tests (pgregory.net/rapid v1.3.0) + exhaustive small-space enumeration + native go fuzzing in thorough tiers, sharded over processes by run.sh"}],
    "checks": [], "not_applicable": [],
    "notes": "run.sh <ID> quick|thorough; run.sh <ID> --replay <dir>. Exit 0 held / 1 VIOLATION / 2 inconclusive. known_findings.json lists repaired (fixed) and recorded (known) defects.",
}
for p in props:
    c = checks.get(p)
    if not c or c.get("status") != "claimed":
        out["not_applicable"].append({"property_id": p, "reason": (c or {}).get("reason", "check not built yet in this round (planned in DESIGN.md section 3); not claimed until it exists and is quiet on the unchanged tree")})
        continue
    out["checks"].append({
        "property_id": p,
        "quick_cmd": f"./run.sh {p} quick",
        "thorough_cmd": f"./run.sh {p} thorough",
        "evidence_file": f"evidence/{p}.json",
        "replay_cmd_template": f"./run.sh {p} --replay {{path}}",
        "engine": "rapid-harness",
        "level_claimed": {"category": c.get("level", "exploration"), "text": c["text"], "design_ref": f"DESIGN.md section 3 ({p})"},
        "level_note": c["note"],
        "technique": c["technique"],
    })
json.dump(out, open(os.path.join(V, "MANIFEST.json"), "w"), indent=1, ensure_ascii=False)
print("claimed:", [c["property_id"] for c in out["checks"]])
