#!/bin/bash
# run.sh <ID> quick|thorough            run the check of one property
# run.sh <ID> --replay <path>           re-run one saved case through the oracle (no PBT library)
# exit: 0 held / 1 VIOLATION / 2 inconclusive (infrastructure, timeout, generator health)
set -u
ID="${1:?property id}"; MODE="${2:-quick}"
VERIF="$(cd "$(dirname "$0")" && pwd)"
export VERIF_DIR="$VERIF" VERIF_REPO="${VERIF_REPO:-/repo}"
export GOFLAGS=-mod=mod GOPROXY=off GOSUMDB=off GOTOOLCHAIN=local
GO=go1.26.8
pkg=$(echo "$ID" | tr 'A-Z' 'a-z')
[ -d "$VERIF/harness/checks/$pkg" ] || { echo "no check for $ID" >&2; exit 2; }
SEED="${VERIF_SEED:-1}"; [ "$SEED" = 0 ] && SEED=1
export VERIF_SEED="$SEED"
START=$(date +%s.%N)

# module file pointing at the repo under test
MODFILE="$VERIF/harness/go.mod"
if [ "$VERIF_REPO" != /repo ]; then
	mkdir -p "$VERIF/.work"
	MODFILE="$VERIF/.work/go.$(echo "$VERIF_REPO" | sha256sum | cut -c1-8).mod"
	sed "s#=> /repo#=> $VERIF_REPO#" "$VERIF/harness/go.mod" >"$MODFILE"
	cp "$VERIF/harness/go.sum" "${MODFILE%.mod}.sum"
fi

# does this check need the compiled toolchain?
NEEDS_BUILD=1
[ -f "$VERIF/harness/checks/$pkg/NOBUILD" ] && NEEDS_BUILD=0
if [ $NEEDS_BUILD = 1 ]; then
	W=$("$VERIF/build.sh") || { echo "INCONCLUSIVE: build failed" >&2; exit 2; }
	export VERIF_WORK="$W"
fi
H=$("$VERIF/build.sh" --hash)
if [ $NEEDS_BUILD = 1 ]; then export DDPPATH="$VERIF_WORK/ddp" LOCPATH="$VERIF_WORK/locale"
else # frontend-only checks still need the Duden to resolve `Binde "Duden/..." ein`
	export DDPPATH="$VERIF/.work/ddppath-$H"; mkdir -p "$DDPPATH"; ln -sfn "$VERIF_REPO/lib/stdlib/Duden" "$DDPPATH/Duden"
fi
BIN="$VERIF/.work/bin"; mkdir -p "$BIN"
TESTBIN="$BIN/$pkg.$H.test"
( cd "$VERIF/harness" && $GO test -modfile="$MODFILE" -tags verif -c -o "$TESTBIN" "./checks/$pkg" ) >&2 || { echo "INCONCLUSIVE: harness build failed" >&2; exit 2; }
ls -1t "$BIN"/$pkg.*.test 2>/dev/null | tail -n +3 | xargs -r rm -f

if [ "$MODE" = "--replay" ]; then
	RP="$(realpath "${3:?path}")"
	cd "$VERIF/harness/checks/$pkg" && VERIF_REPLAY="$RP" exec "$TESTBIN"
fi

export VERIF_TIER="$MODE"
NSH="${VERIF_NSHARDS:-$( [ -f "$VERIF/harness/checks/$pkg/SHARDS" ] && cat "$VERIF/harness/checks/$pkg/SHARDS" || echo 8)}"
export VERIF_NSHARDS="$NSH"
OUT="$VERIF/.work/out/$ID.$MODE.$$"; rm -rf "$OUT"; mkdir -p "$OUT"; export VERIF_OUT="$OUT"
TMO="${VERIF_TIMEOUT:-$( [ "$MODE" = thorough ] && echo 5400 || echo 1500)}"

# 1. witnesses of listed findings
python3 - "$VERIF/known_findings.json" "$ID" >"$OUT/witnesses.txt" <<'PY' 2>/dev/null
import json,sys
try:
    for f in json.load(open(sys.argv[1])):
        if f.get("property")==sys.argv[2] and f.get("witness"): print(f["id"], f["witness"])
except FileNotFoundError: pass
PY
while read -r fid wit; do
	[ -z "$fid" ] && continue
	( cd "$VERIF/harness/checks/$pkg" && VERIF_REPLAY="$VERIF/$wit" timeout 300 "$TESTBIN" >"$OUT/witness-$fid.log" 2>&1; echo $? >"$OUT/witness-$fid.rc" )
done <"$OUT/witnesses.txt"

# 2. shards
pids=()
for k in $(seq 0 $((NSH-1))); do
	( cd "$VERIF/harness/checks/$pkg" && VERIF_SHARD=$k timeout -k 10 "$TMO" "$TESTBIN" -test.timeout=0 -test.v \
		-rapid.seed=$(( (SEED*64+k)*1099511627776+1 )) -rapid.nofailfile -rapid.shrinktime=45s ${VERIF_RAPID_FLAGS:-} >"$OUT/shard-$k.log" 2>&1 ) &
	pids+=($!)
done
for p in "${pids[@]}"; do wait "$p"; done
END=$(date +%s.%N)

( cd "$VERIF/harness" && $GO run -modfile="$MODFILE" ./cmd/merge -id "$ID" -out "$OUT" -tier "$MODE" -seed "$SEED" -nshards "$NSH" -verif "$VERIF" -wall "$(echo "$END - $START" | bc)" )
rc=$?
if [ $rc = 0 ] && [ -z "${VERIF_KEEP_OUT:-}" ]; then rm -rf "$OUT"; else echo "shard logs kept in $OUT" >&2; fi
exit $rc
