#!/bin/bash
# One-time, offline: build the toolchain under test and pre-compile every check's test binary.
set -u
VERIF="$(cd "$(dirname "$0")" && pwd)"
export GOFLAGS=-mod=mod GOPROXY=off GOSUMDB=off GOTOOLCHAIN=local
"$VERIF/build.sh" >/dev/null || exit 2
cd "$VERIF/harness" && go1.26.8 vet -tags verif ./vf ./cmd/... >/dev/null 2>&1
for d in "$VERIF"/harness/checks/*/; do
	( cd "$VERIF/harness" && go1.26.8 test -tags verif -c -o /dev/null "./checks/$(basename "$d")" ) || exit 2
done
echo setup ok
