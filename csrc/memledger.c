/* Allocation ledger for C05/C18: linked with -Wl,--wrap=ddp_reallocate.
 * Every (pointer, oldSize, newSize) triple that generated code, runtime or stdlib passes to
 * ddp_reallocate is checked against what was really allocated:
 *   - oldSize must be the recorded size of a live block (0 only together with a NULL pointer),
 *   - no free/resize of a pointer that is not live (double free, foreign pointer),
 *   - at normal exit no block may be live.
 * A violation prints one line "VERIF-LEDGER: ..." to stderr and ends the process with status 97. */
#define _GNU_SOURCE
#include <stdint.h>
#include <stdio.h>
#include <stdlib.h>
#include <string.h>
#include <unistd.h>

void *__real_ddp_reallocate(void *pointer, size_t oldSize, size_t newSize);

#define SLOTS (1u << 20)
static struct { void *p; size_t n; } table[SLOTS];
static size_t live = 0, total_allocs = 0, total_frees = 0, peak = 0;
#define TOMB ((void *)1)

static unsigned slot_of(void *p) { return (unsigned)(((uintptr_t)p >> 4) * 2654435761u) & (SLOTS - 1); }

static long find(void *p) {
	unsigned i = slot_of(p);
	for (unsigned k = 0; k < SLOTS; k++, i = (i + 1) & (SLOTS - 1)) {
		if (table[i].p == p) return i;
		if (table[i].p == NULL) return -1;
	}
	return -1;
}
static void put(void *p, size_t n) {
	unsigned i = slot_of(p);
	for (unsigned k = 0; k < SLOTS; k++, i = (i + 1) & (SLOTS - 1)) {
		if (table[i].p == NULL || table[i].p == TOMB) { table[i].p = p; table[i].n = n; live++; if (live > peak) peak = live; return; }
	}
	fprintf(stderr, "VERIF-LEDGER: table full\n"); _exit(96);
}
static void die(const char *what, void *p, size_t old, size_t new, long recorded) {
	fflush(stdout);
	fprintf(stderr, "VERIF-LEDGER: %s (ptr=%p oldSize=%zu newSize=%zu recorded=%ld; %zu allocations, %zu frees so far)\n", what, p, old, new, recorded, total_allocs, total_frees);
	_exit(97);
}

void *__wrap_ddp_reallocate(void *pointer, size_t oldSize, size_t newSize) {
	if (pointer == NULL) {
		if (oldSize != 0) die("NULL pointer passed with a non-zero old size", pointer, oldSize, newSize, -1);
	} else {
		long i = find(pointer);
		if (i < 0) die(newSize == 0 ? "free of a block that is not live (double free or foreign pointer)" : "resize of a block that is not live", pointer, oldSize, newSize, -1);
		if (table[i].n != oldSize) die(newSize == 0 ? "free states a wrong block size" : "resize states a wrong old size", pointer, oldSize, newSize, (long)table[i].n);
		table[i].p = TOMB; live--;
		if (newSize == 0) total_frees++;
	}
	void *r = __real_ddp_reallocate(pointer, oldSize, newSize);
	if (newSize != 0) {
		if (r == NULL) return r;
		if (pointer == NULL) total_allocs++;
		put(r, newSize);
	}
	return r;
}

__attribute__((destructor)) static void ledger_at_exit(void) {
	const char *statsfile = getenv("VERIF_LEDGER_STATS");
	if (statsfile) {
		FILE *f = fopen(statsfile, "w");
		if (f) { fprintf(f, "%zu %zu %zu %zu\n", total_allocs, total_frees, live, peak); fclose(f); }
	}
	if (live != 0 && getenv("VERIF_LEDGER_NOLEAK") == NULL) {
		size_t bytes = 0, shown = 0;
		for (unsigned i = 0; i < SLOTS; i++) if (table[i].p != NULL && table[i].p != TOMB) bytes += table[i].n;
		fflush(stdout);
		fprintf(stderr, "VERIF-LEDGER: %zu block(s) / %zu byte(s) still live at exit (%zu allocations, %zu frees); sizes:", live, bytes, total_allocs, total_frees);
		for (unsigned i = 0; i < SLOTS && shown < 8; i++) if (table[i].p != NULL && table[i].p != TOMB) { fprintf(stderr, " %zu", table[i].n); shown++; }
		fprintf(stderr, "\n");
		_exit(97);
	}
}
