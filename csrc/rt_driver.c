// rt_driver: a command interpreter over a pool of ddpstrings, linked against the runtime of the tree under test
// (AddressSanitizer build). One command per line on stdin, one answer line per command on stdout.
// Used by check C12: the answers are compared with a []rune model.
//
//   new  <dst> <hex>          pool[dst] = text with these UTF-8 bytes (from a constant)
//   len  <a>                  -> number of characters
//   idx  <a> <i>              -> code point at index i (1-based, caller keeps i in range)
//   rep  <a> <i> <cp>         replace character i by cp, in place
//   slc  <dst> <a> <i> <j>    pool[dst] = slice
//   cat  <dst> <a> <b>        pool[dst] = a verkettet mit b   (text text)
//   catc <dst> <a> <cp>       pool[dst] = a verkettet mit cp  (text char)
//   ccat <dst> <cp> <a>       pool[dst] = cp verkettet mit a  (char text)
//   eq   <a> <b>              -> 0/1
//   cpy  <dst> <a>            deep copy
//   c2s  <dst> <cp>           char -> text
//   itr  <a>                  -> code points as the compiled for-each loop decodes them
//   s2i  <a>                  -> Text als Zahl
//   i2s  <dst> <n>            Zahl als Text
//   dump <a>                  -> cap and bytes in hex
//   enc  <cp>                 -> utf8_char_to_string: bytes in hex
//   dec  <hex>                -> utf8_string_to_char: width and code point; utf8_num_bytes; utf8_strlen
#include "DDP/ddpmemory.h"
#include "DDP/ddptypes.h"
#include "DDP/runtime.h"
#include "DDP/utf8/utf8.h"
#include <stdio.h>
#include <stdlib.h>
#include <string.h>

ddpint ddp_string_length(ddpstring *str);
ddpchar ddp_string_index(ddpstring *str, ddpint index);
void ddp_replace_char_in_string(ddpstring *str, ddpchar ch, ddpint index);
void ddp_string_slice(ddpstring *ret, ddpstring *str, ddpint index1, ddpint index2);
void ddp_string_string_verkettet(ddpstring *ret, ddpstring *str1, ddpstring *str2);
void ddp_char_string_verkettet(ddpstring *ret, ddpchar c, ddpstring *str);
void ddp_string_char_verkettet(ddpstring *ret, ddpstring *str, ddpchar c);
ddpint ddp_string_to_int(ddpstring *str);
void ddp_int_to_string(ddpstring *ret, ddpint i);
void ddp_char_to_string(ddpstring *ret, ddpchar c);
ddpbool ddp_string_equal(ddpstring *str1, ddpstring *str2);

#define POOL 16
static ddpstring pool[POOL];
static int used[POOL];

static void put(int dst, ddpstring s) {
	if (used[dst]) {
		ddp_free_string(&pool[dst]);
	}
	pool[dst] = s;
	used[dst] = 1;
}

static int unhex(const char *h, char *out, int max) {
	int n = 0;
	while (h[0] && h[1] && n < max) {
		unsigned v;
		if (sscanf(h, "%2x", &v) != 1) break;
		out[n++] = (char)v;
		h += 2;
	}
	out[n] = 0;
	return n;
}

static void hexout(const char *p, long n) {
	for (long i = 0; i < n; i++) printf("%02x", (unsigned char)p[i]);
}

int main(int argc, char **argv) {
	ddp_init_runtime(argc, argv);
	char line[8192], cmd[16];
	static char buf[4096];
	while (fgets(line, sizeof line, stdin)) {
		long a = 0, b = 0, c = 0, d = 0;
		char hex[8192];
		hex[0] = 0;
		if (sscanf(line, "%15s", cmd) != 1) continue;
		if (!strcmp(cmd, "new")) {
			int n = sscanf(line, "%*s %ld %8191s", &a, hex);
			if (n < 2) hex[0] = 0;
			unhex(hex, buf, sizeof buf - 1);
			ddpstring s;
			ddp_string_from_constant(&s, buf);
			put(a, s);
			printf("ok\n");
		} else if (!strcmp(cmd, "len")) {
			sscanf(line, "%*s %ld", &a);
			printf("len %ld\n", (long)ddp_string_length(&pool[a]));
		} else if (!strcmp(cmd, "idx")) {
			sscanf(line, "%*s %ld %ld", &a, &b);
			printf("idx %ld\n", (long)ddp_string_index(&pool[a], b));
		} else if (!strcmp(cmd, "rep")) {
			sscanf(line, "%*s %ld %ld %ld", &a, &b, &c);
			ddp_replace_char_in_string(&pool[a], (ddpchar)c, b);
			printf("ok\n");
		} else if (!strcmp(cmd, "slc")) {
			sscanf(line, "%*s %ld %ld %ld %ld", &a, &b, &c, &d);
			ddpstring s;
			ddp_string_slice(&s, &pool[b], c, d);
			put(a, s);
			printf("ok\n");
		} else if (!strcmp(cmd, "cat")) {
			sscanf(line, "%*s %ld %ld %ld", &a, &b, &c);
			ddpstring x, y, s; // the operator consumes its first operand: hand it copies as the compiler does for variables
			ddp_deep_copy_string(&x, &pool[b]);
			ddp_deep_copy_string(&y, &pool[c]);
			ddp_string_string_verkettet(&s, &x, &y);
			ddp_free_string(&y);
			put(a, s);
			printf("ok\n");
		} else if (!strcmp(cmd, "catc")) {
			sscanf(line, "%*s %ld %ld %ld", &a, &b, &c);
			ddpstring x, s;
			ddp_deep_copy_string(&x, &pool[b]);
			ddp_string_char_verkettet(&s, &x, (ddpchar)c);
			put(a, s);
			printf("ok\n");
		} else if (!strcmp(cmd, "ccat")) {
			sscanf(line, "%*s %ld %ld %ld", &a, &b, &c);
			ddpstring x, s;
			ddp_deep_copy_string(&x, &pool[c]);
			ddp_char_string_verkettet(&s, (ddpchar)b, &x);
			put(a, s);
			printf("ok\n");
		} else if (!strcmp(cmd, "eq")) {
			sscanf(line, "%*s %ld %ld", &a, &b);
			printf("eq %d\n", ddp_string_equal(&pool[a], &pool[b]) ? 1 : 0);
		} else if (!strcmp(cmd, "cpy")) {
			sscanf(line, "%*s %ld %ld", &a, &b);
			ddpstring s;
			ddp_deep_copy_string(&s, &pool[b]);
			put(a, s);
			printf("ok\n");
		} else if (!strcmp(cmd, "c2s")) {
			sscanf(line, "%*s %ld %ld", &a, &b);
			ddpstring s;
			ddp_char_to_string(&s, (ddpchar)b);
			put(a, s);
			printf("ok\n");
		} else if (!strcmp(cmd, "itr")) {
			sscanf(line, "%*s %ld", &a);
			printf("itr");
			if (!ddp_string_empty(&pool[a])) {
				char *it = pool[a].str, *end = pool[a].str + pool[a].cap - 1;
				int guard = 0;
				while (it != end && guard++ < 5000) {
					uint32_t ch = 0;
					size_t n = utf8_string_to_char(it, &ch);
					if (n == (size_t)-1) {
						printf(" invalid");
						break;
					}
					if (n == 0) {
						printf(" width0");
						break;
					}
					printf(" %ld", (long)(int32_t)ch);
					it += n;
					if (it > end) {
						printf(" overrun");
						break;
					}
				}
			}
			printf("\n");
		} else if (!strcmp(cmd, "s2i")) {
			sscanf(line, "%*s %ld", &a);
			printf("s2i %lld\n", (long long)ddp_string_to_int(&pool[a]));
		} else if (!strcmp(cmd, "i2s")) {
			long long v = 0;
			sscanf(line, "%*s %ld %lld", &a, &v);
			ddpstring s;
			ddp_int_to_string(&s, (ddpint)v);
			put(a, s);
			printf("ok\n");
		} else if (!strcmp(cmd, "dump")) {
			sscanf(line, "%*s %ld", &a);
			printf("dump %ld ", (long)pool[a].cap);
			if (pool[a].str) hexout(pool[a].str, (long)strlen(pool[a].str));
			printf("\n");
		} else if (!strcmp(cmd, "enc")) {
			sscanf(line, "%*s %ld", &a);
			char t[8];
			memset(t, 0, sizeof t);
			size_t n = utf8_char_to_string(t, (int32_t)a);
			printf("enc %ld ", (long)n);
			if (n != (size_t)-1) hexout(t, (long)n);
			printf(" %ld\n", (long)utf8_num_bytes_char((uint32_t)a));
		} else if (!strcmp(cmd, "dec")) {
			sscanf(line, "%*s %8191s", hex);
			unhex(hex, buf, sizeof buf - 1);
			uint32_t ch = 0;
			size_t n = utf8_string_to_char(buf, &ch);
			printf("dec %ld %ld %ld %ld %d\n", (long)n, (long)(int32_t)ch, (long)utf8_num_bytes(buf), (long)utf8_strlen(buf), utf8_indicated_num_bytes(buf[0]));
		} else {
			printf("unknown\n");
		}
		fflush(stdout);
	}
	for (int i = 0; i < POOL; i++) {
		if (used[i]) ddp_free_string(&pool[i]);
	}
	ddp_end_runtime();
	return 0;
}
